//! Small shared types (used by the stepped layers and by the end-to-end layer, which must also
//! build without the hooks).

use serde::{Deserialize, Serialize};

#[derive(Clone, Copy, Debug, Serialize, Deserialize, PartialEq, Eq)]
pub enum LKind {
    Tcp,
    Uds,
}

#[derive(Clone, Copy, Debug, Serialize, Deserialize, PartialEq, Eq)]
pub enum ErrKind {
    Aborted,
    Reset,
    Refused,
    Emfile,
    Enfile,
    Other,
}

impl ErrKind {
    pub fn fatal(self) -> bool {
        matches!(self, ErrKind::Emfile | ErrKind::Enfile | ErrKind::Other)
    }
}
