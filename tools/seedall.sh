#!/bin/bash
# tools/seedall.sh [pattern] : runs every archived seeded change (seeded/<ID>-<v>/patch.diff) against
# the quick check of its property and prints one line per change; exit 0 iff all are reported.
cd /verif
PAT=${1:-}
bad=0
for d in seeded/*${PAT}*/; do
  d=${d%/}
  id=$(basename $d | sed 's/^own-//; s/-.*//')
  out=$(tools/seedrun.sh $id /verif/$d 2>&1 | tail -1)
  echo "$(date +%H:%M:%S) $out"
  case "$out" in CAUGHT*) ;; *) bad=1;; esac
done
exit $bad
