//! C13 — Framed decoding does not depend on how the bytes arrive.
//!
//! Oracle (metamorphic / differential): the items `Framed::poll_next` yields under a scripted
//! arrival (chunks, Pendings, one injected I/O error) equal the items a fresh codec yields from the
//! whole stream in one buffer (`decode` until None, then `decode_eof`), with the I/O error inserted
//! after the frames decodable from the bytes delivered before it; then `None`, and `None` again.

use std::{
    io,
    panic::{catch_unwind, AssertUnwindSafe},
    pin::Pin,
    task::{Context, Poll},
};

use actix_codec::{BytesCodec, Decoder, Framed, LinesCodec};
use bytes::BytesMut;
use futures_core::Stream;
use proptest::prelude::*;
use serde::{Deserialize, Serialize};
use serde_json::Value;
use vcore::{vensure, vfail, CaseResult, Ctx, Obs, Part};

use crate::{
    c17::count_waker,
    mockio::{kind_name, Ev, LenU16, LenU8, MockIo, RStep, TFrame, KINDS},
};

#[derive(Clone, Copy, Debug, Serialize, Deserialize, PartialEq)]
pub enum Codec {
    LenU8,
    LenU16,
    Lines,
    Bytes,
}

#[derive(Clone, Debug, Serialize, Deserialize, PartialEq)]
pub struct Case {
    pub codec: Codec,
    pub stream: Vec<u8>,
    pub script: Vec<RStep>,
    /// (byte offset clipped to the stream length, error kind index)
    pub err_at: Option<(usize, u8)>,
    /// things done to the Framed between polls, none of which may change what it yields:
    /// (before poll number n, what): 0 = into_parts + from_parts, 1 = into_map_io(identity),
    /// 2 = into_map_codec(identity), 4 = replace_codec(equal codec), 3 = close the write half (flush + shutdown of the transport's
    /// write direction; the peer keeps sending)
    #[serde(default)]
    pub between: Vec<(u16, u8)>,
    /// the first `preload` bytes of the stream are already in the read buffer the Framed is built
    /// with (`FramedParts::with_read_buf` + `Framed::from_parts`), the transport delivers the rest
    #[serde(default)]
    pub preload: u16,
    /// how the transport fills the ReadBuf (see `MockIo::read_style`)
    #[serde(default)]
    pub read_style: u8,
    /// once the read script is used up the transport delivers this many bytes per read (0 = all
    /// that is left): a peer that trickles, every read ready, a frame spread over dozens of reads
    #[serde(default)]
    pub trickle: u8,
}

#[derive(Clone, Debug, PartialEq)]
pub enum Item {
    Frame(Vec<u8>),
    Line(String),
    Tail(Vec<u8>),
    End,
    Err(String),
}

trait ToItem {
    fn to_item(self) -> Item;
}
impl ToItem for Vec<u8> {
    fn to_item(self) -> Item {
        Item::Frame(self)
    }
}
impl ToItem for String {
    fn to_item(self) -> Item {
        Item::Line(self)
    }
}
impl ToItem for BytesMut {
    fn to_item(self) -> Item {
        Item::Frame(self.to_vec())
    }
}
impl ToItem for TFrame {
    fn to_item(self) -> Item {
        match self {
            TFrame::Data(d) => Item::Frame(d),
            TFrame::Tail(d) => Item::Tail(d),
            TFrame::End => Item::End,
        }
    }
}

fn conv<I: ToItem>(r: Result<I, io::Error>) -> Item {
    match r {
        Ok(i) => i.to_item(),
        Err(e) => Item::Err(kind_name(e.kind())),
    }
}

struct Expected {
    items: Vec<Item>,
    /// the stream ends with None (false when decode_eof keeps failing, e.g. the default
    /// "bytes remaining on stream" error, which never consumes the buffer)
    ends: bool,
}

/// Reference: one fresh codec over the whole stream.
fn reference<D>(mut codec: D, stream: &[u8], err: Option<(usize, io::ErrorKind)>) -> Expected
where
    D: Decoder<Error = io::Error>,
    D::Item: ToItem,
{
    let mut items = vec![];
    let mut buf = BytesMut::new();
    let bound = stream.len() + 8;
    let feed = |codec: &mut D, buf: &mut BytesMut, items: &mut Vec<Item>, bytes: &[u8]| {
        buf.extend_from_slice(bytes);
        let mut n = 0;
        loop {
            match codec.decode(buf) {
                Ok(None) => break,
                r => items.push(conv(r.map(|o| o.unwrap()))),
            }
            n += 1;
            if n > bound {
                break;
            }
        }
    };
    match err {
        Some((at, kind)) => {
            feed(&mut codec, &mut buf, &mut items, &stream[..at]);
            items.push(Item::Err(kind_name(kind)));
            feed(&mut codec, &mut buf, &mut items, &stream[at..]);
        }
        None => feed(&mut codec, &mut buf, &mut items, stream),
    }
    let mut ends = false;
    let mut errs = 0;
    for _ in 0..bound {
        match codec.decode_eof(&mut buf) {
            Ok(None) => {
                ends = true;
                break;
            }
            r => {
                let it = conv(r.map(|o| o.unwrap()));
                if matches!(it, Item::Err(_)) {
                    errs += 1;
                } else {
                    errs = 0;
                }
                items.push(it);
                if errs >= 3 {
                    break;
                }
            }
        }
    }
    Expected { items, ends }
}

/// closing the write half needs the codec's `Encoder` item type
trait CloseWrite: Sized {
    fn close_write(f: Pin<&mut Framed<MockIo, Self>>, cx: &mut Context<'_>) -> Poll<io::Result<()>>;
}
impl CloseWrite for LenU8 {
    fn close_write(f: Pin<&mut Framed<MockIo, Self>>, cx: &mut Context<'_>) -> Poll<io::Result<()>> {
        f.close::<Vec<u8>>(cx)
    }
}
impl CloseWrite for LenU16 {
    fn close_write(f: Pin<&mut Framed<MockIo, Self>>, cx: &mut Context<'_>) -> Poll<io::Result<()>> {
        f.close::<Vec<u8>>(cx)
    }
}
impl CloseWrite for LinesCodec {
    fn close_write(f: Pin<&mut Framed<MockIo, Self>>, cx: &mut Context<'_>) -> Poll<io::Result<()>> {
        f.close::<&str>(cx)
    }
}
impl CloseWrite for BytesCodec {
    fn close_write(f: Pin<&mut Framed<MockIo, Self>>, cx: &mut Context<'_>) -> Poll<io::Result<()>> {
        f.close::<bytes::Bytes>(cx)
    }
}

struct Run {
    converted_with_buffered: bool,
    closed_before_end: bool,
    items: Vec<Item>,
    none_seen: u32,
    pendings: u32,
    polls: u32,
}

fn drive<D>(codec: D, c: &Case, err: Option<(usize, io::ErrorKind)>, want_items: usize, ends: bool) -> Result<Run, vcore::Fail>
where
    D: Decoder<Error = io::Error> + Unpin + CloseWrite + Clone,
    D::Item: ToItem,
{
    // the injected error comes after at least one byte delivered by the transport: preloaded bytes
    // are decoded only once a read has succeeded (or at EOF), an error on the very first read would
    // legitimately precede them
    let pre = (c.preload as usize).min(c.stream.len()).min(err.map(|e| e.0.saturating_sub(1)).unwrap_or(usize::MAX));
    let io = MockIo { stream: c.stream.clone(), delivered: pre, rscript: c.script.iter().copied().collect(), err_at: err, read_style: c.read_style % 3, default_chunk: c.trickle as u16, ..Default::default() };
    let mut framed = if pre > 0 {
        Framed::from_parts(actix_codec::FramedParts::with_read_buf(io, codec, BytesMut::from(&c.stream[..pre])))
    } else {
        Framed::new(io, codec)
    };
    let mut run = Run { converted_with_buffered: false, closed_before_end: false, items: vec![], none_seen: 0, pendings: 0, polls: 0 };
    let max_polls = (c.script.len() + c.stream.len() + want_items + 16) as u32;
    // BytesCodec: the number of frames is arrival dependent, poll until None
    let open_ended = matches!(c.codec, Codec::Bytes);
    loop {
        run.polls += 1;
        vensure!(run.polls <= max_polls, "C13/no-progress", "Framed made no progress within {} polls ({} items so far, {} expected)", max_polls, run.items.len(), want_items);
        let (cw, w) = count_waker();
        let mut cx = Context::from_waker(&w);
        for (at, what) in &c.between {
            if *at as u32 != run.polls {
                continue;
            }
            // mid-stream: frames are still to come (some of them usually sit in the read buffer)
            let buffered = run.none_seen == 0 && run.items.len() < want_items && run.polls > 1;
            match what % 5 {
                0 => framed = Framed::from_parts(framed.into_parts()),
                1 => framed = framed.into_map_io(|io| io),
                2 => framed = framed.into_map_codec(|c| c),
                4 => {
                    // replace_codec with an equal codec (same decoder state): the read buffer and
                    // the readable / end-of-stream state travel with the Framed
                    let codec = framed.codec_ref().clone();
                    framed = framed.replace_codec(codec);
                }
                _ => {
                    let r = D::close_write(Pin::new(&mut framed), &mut cx);
                    vensure!(matches!(r, Poll::Ready(Ok(()))), "C13/close-failed", "closing the write half of an idle Framed returned {:?}", r.map(|x| x.map_err(|e| e.kind())));
                    let _ = framed.io_mut().take_events();
                    run.closed_before_end |= run.none_seen == 0;
                    continue;
                }
            }
            run.converted_with_buffered |= buffered;
        }
        let r = Pin::new(&mut framed).poll_next(&mut cx);
        let evs = framed.io_mut().take_events();
        let transport_pending = evs.iter().any(|e| *e == Ev::ReadPending);
        match r {
            Poll::Pending => {
                run.pendings += 1;
                vensure!(transport_pending, "C13/spurious-pending", "poll_next returned Pending although the transport did not (events {:?})", evs);
                let stored = framed.io_ref().last_waker.as_ref().map(|lw| lw.will_wake(&w)).unwrap_or(false);
                vensure!(stored, "C13/waker-not-passed", "poll_next returned Pending but the transport was not polled with the caller's waker");
                let _ = cw;
            }
            Poll::Ready(Some(it)) => {
                vensure!(!transport_pending, "C13/pending-swallowed", "transport returned Pending but poll_next returned an item in the same call");
                vensure!(run.none_seen == 0, "C13/item-after-none", "an item was yielded after the stream had ended with None");
                run.items.push(conv(it));
                if !open_ended && !ends && run.items.len() >= want_items {
                    break;
                }
                if run.items.len() > want_items + 4 && !open_ended {
                    break;
                }
            }
            Poll::Ready(None) => {
                run.none_seen += 1;
                if run.none_seen >= 2 {
                    break;
                }
            }
        }
    }
    Ok(run)
}

pub fn check_case(c: &Case) -> CaseResult {
    match catch_unwind(AssertUnwindSafe(|| check_inner(c))) {
        Ok(r) => r,
        Err(p) => vfail!("C13/panic", "Framed/codec panicked: {}", vcore::panic_message(&*p)),
    }
}

fn check_inner(c: &Case) -> CaseResult {
    let err = c.err_at.map(|(at, k)| (at.min(c.stream.len()), KINDS[k as usize % KINDS.len()]));
    let exp = match c.codec {
        Codec::LenU8 => reference(LenU8, &c.stream, err),
        Codec::LenU16 => reference(LenU16::default(), &c.stream, err),
        Codec::Lines => reference(LinesCodec::default(), &c.stream, err),
        Codec::Bytes => Expected { items: vec![], ends: true },
    };
    let run = match c.codec {
        Codec::LenU8 => drive(LenU8, c, err, exp.items.len(), exp.ends)?,
        Codec::LenU16 => drive(LenU16::default(), c, err, exp.items.len(), exp.ends)?,
        Codec::Lines => drive(LinesCodec::default(), c, err, exp.items.len(), exp.ends)?,
        Codec::Bytes => drive(BytesCodec, c, err, 0, true)?,
    };
    let mut obs = Obs::new();
    if matches!(c.codec, Codec::Bytes) {
        // frames depend on arrival by design: their concatenation is the stream, none is empty, and
        // the injected error appears exactly once
        let mut cat = vec![];
        let mut errs = 0;
        for it in &run.items {
            match it {
                Item::Frame(f) => {
                    vensure!(!f.is_empty(), "C13/bytes-empty-frame", "BytesCodec yielded an empty frame");
                    cat.extend_from_slice(f);
                }
                Item::Err(k) => {
                    errs += 1;
                    vensure!(Some(k.clone()) == err.map(|e| kind_name(e.1)), "C13/bytes-error", "unexpected error item {:?}", k);
                }
                other => vfail!("C13/bytes-item", "unexpected item {:?}", other),
            }
        }
        vensure!(cat == c.stream, "C13/bytes-content", "BytesCodec frames concatenate to {} bytes, the stream has {} (lost, duplicated or reordered data)", cat.len(), c.stream.len());
        vensure!(errs == err.is_some() as usize, "C13/io-error-not-surfaced", "the injected I/O error was surfaced {} times", errs);
        vensure!(run.none_seen >= 2, "C13/no-end", "stream did not end with None twice");
    } else {
        let n = exp.items.len().min(run.items.len());
        for i in 0..n {
            vensure!(exp.items[i] == run.items[i], "C13/item-mismatch",
                "item {} differs: Framed yielded {:?}, whole-stream decoding yields {:?} (codec {:?}, stream {} bytes, {} script steps)",
                i, brief(&run.items[i]), brief(&exp.items[i]), c.codec, c.stream.len(), c.script.len());
        }
        vensure!(run.items.len() == exp.items.len(), "C13/item-count",
            "Framed yielded {} items, whole-stream decoding yields {} (codec {:?}; first extra/missing: {:?})",
            run.items.len(), exp.items.len(), c.codec,
            if run.items.len() > n { brief(&run.items[n]) } else { brief(&exp.items[n]) });
        if exp.ends {
            vensure!(run.none_seen >= 2, "C13/no-end", "stream did not end with None (and None again on re-poll)");
        }
    }
    let frames = run.items.iter().filter(|i| !matches!(i, Item::Err(_))).count();
    let chunked = c.script.iter().filter(|s| matches!(s, RStep::Chunk(n) if (*n as usize) < c.stream.len())).count() > 0;
    obs.nontrivial = (frames >= 2 && (chunked || run.pendings > 0)) || c.stream.len() > 8192;
    obs.label_if(run.pendings > 0, "pending");
    obs.label_if(err.is_some(), "io-error");
    obs.label_if(c.stream.len() > 1024, ">1KiB");
    obs.label_if(c.stream.len() > 8192, ">8KiB");
    obs.label_if(run.items.iter().any(|i| matches!(i, Item::Err(k) if k == "InvalidData" || k == "Other")), "decode-error");
    obs.label_if(run.items.iter().any(|i| matches!(i, Item::Frame(f) if f.len() > 8192) || matches!(i, Item::Line(l) if l.len() > 8192)), "frame>8KiB");
    obs.label_if(frames >= 2 && chunked, "multi-frame-chunked");
    obs.label_if(run.converted_with_buffered, "converted-mid-stream");
    obs.label_if(run.closed_before_end, "write-half-closed-while-reading");
    obs.label_if(c.preload > 0 && !c.stream.is_empty(), "preloaded-read-buffer");
    obs.label_if(c.read_style % 3 != 0, "transport-initialises-beyond-filled");
    obs.label_if(c.trickle > 0 && c.stream.len() > 40 * c.trickle as usize, "trickled->=40-ready-reads");
    Ok(obs)
}

fn brief(i: &Item) -> String {
    let s = format!("{:?}", i);
    if s.len() > 120 {
        format!("{}… ({} chars)", &s[..100], s.len())
    } else {
        s
    }
}

// ---- generators --------------------------------------------------------------------------------

const SIZES: [usize; 14] = [0, 1, 100, 1023, 1024, 1025, 4096, 8190, 8191, 8192, 8193, 8194, 10000, 20000];

fn payload_len(long: bool) -> BoxedStrategy<usize> {
    if long {
        // now and then a frame far beyond every buffer mark (the read buffer grows to hundreds of KiB)
        prop_oneof![2 => 0usize..8, 12 => prop::sample::select(SIZES.to_vec()), 2 => 0usize..3000, 1 => prop::sample::select(vec![40_000usize, 64_000, 65_000, 70_000, 100_000, 140_000])].boxed()
    } else {
        prop_oneof![4 => 0usize..6, 1 => 0usize..24].boxed()
    }
}

fn payload(long: bool, lines: bool) -> impl Strategy<Value = Vec<u8>> {
    (payload_len(long), any::<u8>(), any::<u8>()).prop_map(move |(n, a, b)| {
        (0..n)
            .map(|i| {
                let x = a.wrapping_add((i as u8).wrapping_mul(b | 1));
                if lines {
                    // keep LF out of line payloads; sprinkle CR and non-ASCII
                    match x % 16 {
                        0 => b'\r',
                        1 => 0xC3,
                        2 => 0xA9,
                        _ => b'a' + (x % 26),
                    }
                } else {
                    x
                }
            })
            .collect()
    })
}

fn stream_for(codec: Codec, long: bool) -> BoxedStrategy<Vec<u8>> {
    let frames = prop::collection::vec(payload(long, matches!(codec, Codec::Lines)), if long { 1..5usize } else { 0..7usize });
    let tail = prop_oneof![3 => Just(0usize), 1 => 1usize..4];
    (frames, tail, any::<bool>(), prop::collection::vec(prop::sample::select(vec![0u8, 1, 2, 3, b'\n', b'\r', 0xFF, b'a', 0x80]), 0..4))
        .prop_map(move |(frames, cut, cut_mode, junk)| {
            let mut s = vec![];
            for f in &frames {
                match codec {
                    Codec::LenU8 => {
                        let f = &f[..f.len().min(255)];
                        s.push(f.len() as u8);
                        s.extend_from_slice(f);
                    }
                    Codec::LenU16 => {
                        s.extend_from_slice(&(f.len() as u16).to_be_bytes());
                        s.extend_from_slice(f);
                    }
                    Codec::Lines => {
                        s.extend_from_slice(f);
                        s.push(b'\n');
                    }
                    Codec::Bytes => s.extend_from_slice(f),
                }
            }
            if cut_mode {
                let n = s.len().saturating_sub(cut);
                s.truncate(n);
            } else {
                s.extend_from_slice(&junk);
            }
            s
        })
        .boxed()
}

fn raw_stream() -> impl Strategy<Value = Vec<u8>> {
    prop::collection::vec(prop::sample::select(vec![0u8, 1, 2, 3, 4, b'\n', b'\r', b'a', 0xC3, 0xA9, 0xFF, 0x80]), 0..64)
}

fn script(long: bool) -> impl Strategy<Value = Vec<RStep>> {
    let small = prop_oneof![4 => 1u16..4, 2 => 1u16..40, 1 => Just(u16::MAX)];
    let big = prop::sample::select(vec![1u16, 7, 64, 1000, 1023, 1024, 1025, 4096, 8191, 8192, 8193, 30000, u16::MAX]);
    let chunk = if long { big.boxed() } else { small.boxed() };
    prop::collection::vec(prop_oneof![4 => chunk.prop_map(RStep::Chunk), 1 => Just(RStep::Pending)], 0..if long { 60 } else { 48 })
}

pub fn strategy(long: bool) -> impl Strategy<Value = Case> {
    prop::sample::select(if long { vec![Codec::LenU16, Codec::LenU16, Codec::Lines, Codec::Lines, Codec::Bytes, Codec::LenU8] } else { vec![Codec::LenU8, Codec::LenU16, Codec::Lines, Codec::Bytes] })
        .prop_flat_map(move |codec| {
            let stream = if long { stream_for(codec, true) } else { prop_oneof![3 => stream_for(codec, false), 1 => raw_stream().boxed()].boxed() };
            (Just(codec), stream, script(long), prop::option::weighted(0.35, (any::<u16>(), 0u8..6)), prop::collection::vec((1u16..14, 0u8..5), 0..3), prop_oneof![3 => Just(0u16), 1 => 1u16..40, 1 => prop::sample::select(vec![1023u16, 1024, 8191, 8192, 8193, 20000])], prop_oneof![2 => Just(0u8), 1 => Just(1u8), 1 => Just(2u8)], prop_oneof![4 => Just(0u8), 1 => Just(1u8), 1 => 2u8..8])
        })
        .prop_map(|(codec, stream, script, e, between, preload, read_style, trickle)| {
            let err_at = e.map(|(at, k)| (vcore::pick(at, stream.len() + 1), k));
            // (long streams trickled byte by byte would take millions of polls)
            let trickle = if stream.len() > 4096 { 0 } else { trickle };
            Case { codec, stream, script, err_at, between, preload, read_style, trickle }
        })
}

pub fn case_from_bytes(data: &[u8]) -> Case {
    let mut u = arbitrary::Unstructured::new(data);
    let codec = [Codec::LenU8, Codec::LenU16, Codec::Lines, Codec::Bytes][u.int_in_range(0..=3).unwrap_or(0)];
    let nscript = u.int_in_range(0..=24usize).unwrap_or(0);
    let mut script = vec![];
    for _ in 0..nscript {
        let b: u8 = u.arbitrary().unwrap_or(1);
        script.push(if b % 5 == 0 { RStep::Pending } else { RStep::Chunk(1 + (b / 5) as u16 % 40) });
    }
    let e: u8 = u.arbitrary().unwrap_or(0);
    let at: u8 = u.arbitrary().unwrap_or(0);
    let bt: u8 = u.arbitrary().unwrap_or(0);
    let stream = u.take_rest().to_vec();
    let err_at = if e % 3 == 0 { Some(((at as usize * (stream.len() + 1)) >> 8, e / 3)) } else { None };
    let between = if bt % 2 == 0 { vec![] } else { vec![(1 + (bt as u16 >> 3) % 12, (bt >> 1) % 4)] };
    let preload = if bt % 5 == 4 { (at as u16) % 24 } else { 0 };
    let trickle = if bt % 7 == 3 && stream.len() <= 256 { 1 } else { 0 };
    Case { codec, stream, script, err_at, between, preload, read_style: e % 3, trickle }
}

const RULE: &str = "(codec in {u8-length-prefixed with default decode_eof, u16-length-prefixed with stateful decode_eof, LinesCodec, BytesCodec}, byte stream built from frames of boundary-rich sizes (part framed-read-long: up to 20 KB, now and then 40..140 KB) plus truncation/junk or raw delimiter-rich bytes, read script of chunk sizes and Pendings (after which the transport delivers everything, or trickles 1..7 bytes per always-ready read), a transport that fills the ReadBuf with put_slice or with the adapter idiom initialize_unfilled + advance(n) (initialises more than it fills), optional one I/O error at a byte offset, and up to two things done to the Framed between polls that must not change what it yields: into_parts+from_parts / into_map_io / into_map_codec / replace_codec(an equal codec) / closing its write half while the peer keeps sending; optionally the first bytes of the stream are already in the read buffer the Framed is built from (FramedParts::with_read_buf)) run through Framed::poll_next on a scripted AsyncRead with a fresh waker per poll, compared item by item with a fresh codec decoding the whole stream at once; non-trivial = >=2 frames with a chunk boundary or Pending inside the stream, or stream > 8 KiB; distinct by the whole case";

pub fn run(ctx: &Ctx) {
    ctx.assume("test codecs are prefix-consistent (decode on a longer buffer yields the same leading frames), as LinesCodec and length-prefixed codecs are; BytesCodec is judged by concatenation only");
    ctx.run_corpus::<Case>("framed-read", check_case);
    ctx.run_random(
        Part::new("framed-read", RULE, ctx.tier.scale(150_000, 10))
            .floors(&[("pending", 0.3), ("io-error", 0.2), ("multi-frame-chunked", 0.3), ("decode-error", 0.05), ("converted-mid-stream", 0.1), ("write-half-closed-while-reading", 0.05)]),
        || strategy(false),
        check_case,
    );
    ctx.run_random(
        Part::new("framed-read-long", RULE, ctx.tier.scale(12_000, 10)).floors(&[(">8KiB", 0.3), ("frame>8KiB", 0.10), (">1KiB", 0.5)]),
        || strategy(true),
        check_case,
    );
    if ctx.tier == vcore::Tier::Thorough {
        ctx.run_fuzz(
            vcore::fuzz::Campaign { target: "c13_framed_read", part: "framed-read", runs_per_proc: 300_000, procs: 6, max_len: 400, rule: RULE },
            &[b"\x02\x03\x06\x0b\x00\x10\x07\x00a\r\nbc\n\xc3\xa9\nzz".to_vec(), b"\x00\x02\x06\x00\x01\x80\x02ab\x00\x03xyz".to_vec()],
            &|bytes| {
                let c = case_from_bytes(bytes);
                let r = check_case(&c);
                Some((serde_json::to_value(&c).unwrap(), r))
            },
            &|v| serde_json::from_value::<Case>(v.clone()).ok().map(|c| check_case(&c)),
        );
    }
}

pub fn replay(ctx: &Ctx, v: &Value) -> i32 {
    ctx.replay::<Case>(v, check_case)
}
