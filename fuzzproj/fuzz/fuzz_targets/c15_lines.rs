#![no_main]
use libfuzzer_sys::fuzz_target;
fuzz_target!(|data: &[u8]| {
    let case = vl1::c15::decode_case_from_bytes(data);
    vcore::fuzz::fuzz_one("C15", &case, vl1::c15::check_decode);
});
