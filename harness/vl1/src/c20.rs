//! C20 — ByteString is always valid UTF-8 and agrees with `str`.
//!
//! Oracle: differential against `str` / `String` (constructors accept exactly what
//! `str::from_utf8` accepts; every derived value is valid UTF-8; split_at panics exactly when
//! `str::split_at` does; comparison, hashing, formatting and conversions agree with `str`).

use std::{
    borrow::Borrow,
    collections::hash_map::DefaultHasher,
    hash::{Hash, Hasher},
    panic::{catch_unwind, AssertUnwindSafe},
};

use bytes::{Bytes, BytesMut};
use bytestring::ByteString;
use proptest::prelude::*;
use serde::{Deserialize, Serialize};
use serde_json::Value;
use vcore::{vensure, vfail, CaseResult, Ctx, Obs, Part};

#[derive(Clone, Debug, Serialize, Deserialize, PartialEq)]
pub struct Case {
    pub bytes: Vec<u8>,
    /// a second byte string for comparisons (used when it is valid UTF-8)
    pub other: Vec<u8>,
    /// split index tried in addition to the exhaustive 0..=len+1 sweep done for short inputs
    pub split: usize,
    /// sub-slice bounds (clipped, snapped to char boundaries) tried for slice_ref
    pub sub: (usize, usize),
}

fn valid(b: &ByteString) -> bool {
    std::str::from_utf8(b.as_bytes().as_ref()).is_ok()
}

fn h<T: Hash + ?Sized>(t: &T) -> u64 {
    let mut s = DefaultHasher::new();
    t.hash(&mut s);
    s.finish()
}

/// a hasher that records every `write` call: two values that hash alike under every `Hasher`
/// (what `Borrow<str>` promises) feed the same sequence of writes
#[derive(Default)]
struct RecHasher(Vec<Vec<u8>>);
impl Hasher for RecHasher {
    fn finish(&self) -> u64 {
        0
    }
    fn write(&mut self, bytes: &[u8]) {
        self.0.push(bytes.to_vec());
    }
}
fn hw<T: Hash + ?Sized>(t: &T) -> Vec<Vec<u8>> {
    let mut s = RecHasher::default();
    t.hash(&mut s);
    s.0
}

macro_rules! try_arrays {
    ($bytes:expr, $out:expr, $($n:literal)+) => {
        match $bytes.len() {
            $(
                $n => {
                    let mut a = [0u8; $n];
                    a.copy_from_slice($bytes);
                    $out.push(("[u8;N]", ByteString::try_from(a).map_err(|_| ())));
                    $out.push(("&[u8;N]", ByteString::try_from(&a).map_err(|_| ())));
                }
            )+
            _ => {}
        }
    };
}

fn fallible_constructors(bytes: &[u8]) -> Vec<(&'static str, Result<ByteString, ()>)> {
    let mut out: Vec<(&'static str, Result<ByteString, ()>)> = vec![
        ("&[u8]", ByteString::try_from(bytes).map_err(|_| ())),
        ("Vec<u8>", ByteString::try_from(bytes.to_vec()).map_err(|_| ())),
        ("Bytes", ByteString::try_from(Bytes::copy_from_slice(bytes)).map_err(|_| ())),
        ("BytesMut", ByteString::try_from(BytesMut::from(bytes)).map_err(|_| ())),
    ];
    // a Bytes that is a window into a larger allocation (shared storage path)
    let mut framed = vec![0xFFu8];
    framed.extend_from_slice(bytes);
    framed.push(0xFF);
    let big = Bytes::from(framed);
    out.push(("Bytes(window)", ByteString::try_from(big.slice(1..1 + bytes.len())).map_err(|_| ())));
    try_arrays!(bytes, out, 0 1 2 3 4 5 6 7 8 9 10 11 12 13 14 15 16 17 18 19 20 21 22 23 24 25 26 27 28 29 30 31 32);
    out
}

/// everything that must agree with `str` for one value
fn agree(name: &str, b: &ByteString, s: &str) -> Result<(), vcore::Fail> {
    vensure!(valid(b), "C20/invalid-utf8", "{}: ByteString holds invalid UTF-8: {:?}", name, b.as_bytes());
    vensure!(&**b == s, "C20/content", "{}: deref {:?} != {:?}", name, &**b, s);
    vensure!(b.as_bytes().as_ref() == s.as_bytes(), "C20/content", "{}: as_bytes differs", name);
    vensure!(b.clone().into_bytes().as_ref() == s.as_bytes(), "C20/content", "{}: into_bytes differs", name);
    vensure!(String::from(b.clone()) == s, "C20/to-string", "{}: String::from differs", name);
    vensure!(b.to_string() == s, "C20/to-string", "{}: to_string differs", name);
    vensure!(format!("{}", b) == format!("{}", s), "C20/display", "{}: Display differs", name);
    vensure!(format!("{:?}", b) == format!("{:?}", s), "C20/debug", "{}: Debug differs", name);
    vensure!(format!("{:>7}|{:<3}|{:.2}", b, b, b) == format!("{:>7}|{:<3}|{:.2}", s, s, s), "C20/display", "{}: Display with width/precision differs", name);
    let bs: &str = b.borrow();
    vensure!(bs == s, "C20/borrow", "{}: Borrow<str> differs", name);
    let ar: &str = b.as_ref();
    vensure!(ar == s, "C20/asref", "{}: AsRef<str> differs", name);
    let ab: &[u8] = b.as_ref();
    vensure!(ab == s.as_bytes(), "C20/asref", "{}: AsRef<[u8]> differs", name);
    vensure!(h(b) == h(s), "C20/hash", "{}: Hash differs from str's (Borrow<str> contract)", name);
    vensure!(hw(b) == hw(s), "C20/hash", "{}: Hash feeds the hasher {:?}, str feeds it {:?}: hashers that are sensitive to write boundaries disagree (Borrow<str> contract)", name, hw(b), hw(s));
    vensure!(*b == *s && *b == s && *b == s.to_string(), "C20/eq", "{}: == with str/&str/String is false", name);
    Ok(())
}

fn compare(a: &ByteString, sa: &str, b: &ByteString, sb: &str) -> Result<(), vcore::Fail> {
    vensure!((a == b) == (sa == sb), "C20/eq", "{:?} == {:?}: ByteString {} vs str {}", sa, sb, a == b, sa == sb);
    vensure!(a.cmp(b) == sa.cmp(sb), "C20/cmp", "cmp({:?},{:?}): ByteString {:?} vs str {:?}", sa, sb, a.cmp(b), sa.cmp(sb));
    vensure!(a.partial_cmp(b) == sa.partial_cmp(sb), "C20/cmp", "partial_cmp({:?},{:?}) differs", sa, sb);
    vensure!((h(a) == h(b)) == (h(sa) == h(sb)), "C20/hash", "hash equality of {:?},{:?} differs from str", sa, sb);
    vensure!((*a == sb) == (sa == sb), "C20/eq", "{:?} == &str {:?} differs", sa, sb);
    Ok(())
}

fn check_split(name: &str, b: &ByteString, s: &str, mid: usize, depth: u32) -> Result<bool, vcore::Fail> {
    let want = catch_unwind(AssertUnwindSafe(|| {
        let (x, y) = s.split_at(mid);
        (x.to_string(), y.to_string())
    }));
    let got = catch_unwind(AssertUnwindSafe(|| b.split_at(mid)));
    match (want, got) {
        (Err(_), Err(_)) => Ok(true),
        (Ok(_), Err(_)) => vfail!("C20/split-panic-parity", "{}: split_at({}) on {:?} panicked but str::split_at does not", name, mid, s),
        (Err(_), Ok((x, y))) => vfail!("C20/split-panic-parity", "{}: split_at({}) on {:?} did not panic although str::split_at does; halves {:?} {:?} (valid: {} {})",
            name, mid, s, x.as_bytes(), y.as_bytes(), valid(&x), valid(&y)),
        (Ok((wx, wy)), Ok((x, y))) => {
            agree("split_at.0", &x, &wx)?;
            agree("split_at.1", &y, &wy)?;
            // views that share storage (same start address, different length) must still compare like str
            compare(&x, &wx, b, s)?;
            compare(b, s, &y, &wy)?;
            compare(&x, &wx, &y, &wy)?;
            if depth > 0 {
                // values derived from derived values keep the invariant
                for m in 0..=wx.len() + 1 {
                    check_split("split_at.0.split_at", &x, &wx, m, depth - 1)?;
                }
                for m in 0..=wy.len() + 1 {
                    check_split("split_at.1.split_at", &y, &wy, m, depth - 1)?;
                }
                let sub = y.slice_ref(&y[..]);
                agree("split_at.1.slice_ref", &sub, &wy)?;
            }
            Ok(false)
        }
    }
}

fn check_slice(b: &ByteString, s: &str, a: usize, e: usize) -> Result<(), vcore::Fail> {
    // a..e must be char boundaries of s
    let subset: &str = &b[a..e];
    let got = catch_unwind(AssertUnwindSafe(|| b.slice_ref(subset)));
    match got {
        Err(p) => vfail!("C20/slice-ref-panic", "slice_ref of a genuine sub-slice {}..{} of {:?} panicked: {}", a, e, s, vcore::panic_message(&*p)),
        Ok(r) => {
            agree("slice_ref", &r, &s[a..e])?;
            compare(&r, &s[a..e], b, s)?;
            compare(b, s, &r, &s[a..e])?;
            vensure!((r == s[a..e]) && ((r == *s) == (s[a..e] == *s)) && ((*b == s[a..e]) == (*s == s[a..e])), "C20/eq",
                "== between a slice_ref view {:?} and its parent {:?} / sub-str disagrees with str", &s[a..e], s);
            Ok(())
        }
    }
}

/// `Deserialize` driven by a minimal deserializer that hands the visitor the input in one of the six
/// ways a data format may choose (text formats: str / String / borrowed str; binary formats and
/// serde's buffered content: bytes / owned byte buffer / borrowed bytes)
mod de {
    use serde::de::{value::Error, Deserializer, Visitor};

    #[derive(Clone, Copy, Debug)]
    pub enum Mode {
        Str,
        String,
        BorrowedStr,
        Bytes,
        ByteBuf,
        BorrowedBytes,
    }
    pub const TEXT: [Mode; 3] = [Mode::Str, Mode::String, Mode::BorrowedStr];
    pub const BINARY: [Mode; 3] = [Mode::Bytes, Mode::ByteBuf, Mode::BorrowedBytes];

    pub struct D<'a> {
        pub bytes: &'a [u8],
        pub mode: Mode,
    }

    impl<'de> Deserializer<'de> for D<'de> {
        type Error = Error;
        fn deserialize_any<V: Visitor<'de>>(self, v: V) -> Result<V::Value, Error> {
            match self.mode {
                Mode::Str => v.visit_str(std::str::from_utf8(self.bytes).unwrap()),
                Mode::String => v.visit_string(String::from_utf8(self.bytes.to_vec()).unwrap()),
                Mode::BorrowedStr => v.visit_borrowed_str(std::str::from_utf8(self.bytes).unwrap()),
                Mode::Bytes => v.visit_bytes(self.bytes),
                Mode::ByteBuf => v.visit_byte_buf(self.bytes.to_vec()),
                Mode::BorrowedBytes => v.visit_borrowed_bytes(self.bytes),
            }
        }
        serde::forward_to_deserialize_any! {
            bool i8 i16 i32 i64 i128 u8 u16 u32 u64 u128 f32 f64 char str string bytes byte_buf option unit
            unit_struct newtype_struct seq tuple tuple_struct map struct enum identifier ignored_any
        }
    }
}

fn check_serde(bytes: &[u8], reference: Result<&str, std::str::Utf8Error>) -> Result<(), vcore::Fail> {
    let modes: &[de::Mode] = if reference.is_ok() { &[de::Mode::Str, de::Mode::String, de::Mode::BorrowedStr, de::Mode::Bytes, de::Mode::ByteBuf, de::Mode::BorrowedBytes] } else { &de::BINARY };
    let _ = de::TEXT;
    for mode in modes {
        let got = match catch_unwind(AssertUnwindSafe(|| <ByteString as Deserialize>::deserialize(de::D { bytes, mode: *mode }))) {
            Ok(r) => r,
            Err(p) => vfail!("C20/deserialize-panic", "Deserialize panicked on {:?} delivered as {:?}: {}", bytes, mode, vcore::panic_message(&*p)),
        };
        match (reference, got) {
            (Ok(s), Ok(b)) => {
                vensure!(valid(&b) && &*b == s, "C20/deserialize-differs", "Deserialize of {:?} delivered as {:?} holds {:?}", s, mode, b.as_bytes());
            }
            (Ok(s), Err(e)) => vfail!("C20/deserialize-rejects-valid", "Deserialize rejected valid UTF-8 {:?} delivered as {:?}: {}", s, mode, e),
            (Err(_), Ok(b)) => vfail!("C20/ctor-accepts-invalid", "Deserialize accepted invalid UTF-8 {:?} delivered as {:?} (holds {:?})", bytes, mode, b.as_bytes()),
            (Err(_), Err(_)) => {}
        }
    }
    if let Ok(s) = reference {
        let a = serde_json::to_string(&ByteString::from(s)).map_err(|e| vcore::Fail::new("C20/serialize", format!("{e}")))?;
        let b = serde_json::to_string(s).unwrap();
        vensure!(a == b, "C20/serialize-differs", "Serialize of {:?} gives {} but str gives {}", s, a, b);
    }
    Ok(())
}

pub fn check_case(c: &Case) -> CaseResult {
    let mut obs = Obs::new();
    let reference = std::str::from_utf8(&c.bytes);
    let ctors = match catch_unwind(AssertUnwindSafe(|| fallible_constructors(&c.bytes))) {
        Ok(v) => v,
        Err(p) => vfail!("C20/ctor-panic", "a fallible constructor panicked on {:?}: {}", c.bytes, vcore::panic_message(&*p)),
    };
    let non_ascii = c.bytes.iter().any(|b| *b >= 0x80);
    check_serde(&c.bytes, reference)?;
    match reference {
        Err(_) => {
            for (name, r) in &ctors {
                if let Ok(b) = r {
                    vfail!("C20/ctor-accepts-invalid", "TryFrom<{}> accepted invalid UTF-8 {:?} (holds {:?})", name, c.bytes, b.as_bytes());
                }
            }
            obs.nontrivial = true;
            obs.label("invalid-input");
            Ok(obs)
        }
        Ok(s) => {
            let mut values: Vec<(&'static str, ByteString)> = vec![];
            for (name, r) in ctors {
                match r {
                    Ok(b) => values.push((name, b)),
                    Err(()) => vfail!("C20/ctor-rejects-valid", "TryFrom<{}> rejected valid UTF-8 {:?}", name, s),
                }
            }
            values.push(("&str", ByteString::from(s)));
            values.push(("String", ByteString::from(s.to_string())));
            values.push(("Box<str>", ByteString::from(s.to_string().into_boxed_str())));
            let other = std::str::from_utf8(&c.other).ok();
            let other_b = other.map(ByteString::from);
            let short = s.len() <= 12;
            let mut inside_cp = false;
            for (name, b) in &values {
                agree(name, b, s)?;
                if let (Some(o), Some(ob)) = (other, &other_b) {
                    compare(b, s, ob, o)?;
                    compare(ob, o, b, s)?;
                }
                compare(b, s, &b.clone(), s)?;
                // split_at: the case's own index, and for short strings every index 0..=len+1
                inside_cp |= check_split(name, b, s, c.split, 1)?;
                if short {
                    for mid in 0..=s.len() + 1 {
                        let p = check_split(name, b, s, mid, if s.len() <= 6 { 1 } else { 0 })?;
                        inside_cp |= p && mid < s.len();
                    }
                }
                // slice_ref on char-boundary sub-slices
                let bounds: Vec<usize> = (0..=s.len()).filter(|i| s.is_char_boundary(*i)).collect();
                if short {
                    for (i, a) in bounds.iter().enumerate() {
                        for e in &bounds[i..] {
                            check_slice(b, s, *a, *e)?;
                        }
                    }
                }
                let a = bounds[vcore::pick((c.sub.0 % 65536) as u16, bounds.len())];
                let e = bounds[vcore::pick((c.sub.1 % 65536) as u16, bounds.len())];
                let (a, e) = if a <= e { (a, e) } else { (e, a) };
                check_slice(b, s, a, e)?;
                // documented: a non-empty str that is not a sub-slice of this ByteString panics
                if !s.is_empty() {
                    let foreign = s.to_string();
                    let r = catch_unwind(AssertUnwindSafe(|| b.slice_ref(&foreign)));
                    if let Ok(r) = r {
                        vfail!("C20/slice-ref-foreign", "slice_ref of a foreign (equal but not sub-slice) str did not panic as documented; returned {:?}", r.as_bytes());
                    }
                }
            }
            // default / new / from_static
            agree("new", &ByteString::new(), "")?;
            agree("default", &ByteString::default(), "")?;
            obs.nontrivial = non_ascii;
            obs.label_if(non_ascii, "valid-multibyte");
            obs.label_if(!non_ascii, "valid-ascii");
            obs.label_if(inside_cp, "split-inside-codepoint");
            obs.label_if(other.is_some(), "compared");
            Ok(obs)
        }
    }
}

pub const ALPHABET: [u8; 17] = [
    b'a', 0x7F, 0xC3, 0xA9, 0xE2, 0x82, 0xAC, 0xF0, 0x9F, 0x98, 0x80, 0xC0, 0xED, 0xA0, 0xF4, 0x90, 0xFF,
];
pub const CHARS: [char; 7] = ['a', '\u{0}', 'é', '¿', '€', '😀', '\u{10FFFF}'];
const OTHERS: [&str; 7] = ["", "a", "é", "aé", "€", "b", "😀"];

fn byte_strategy() -> impl Strategy<Value = u8> {
    prop_oneof![3 => prop::sample::select(ALPHABET.to_vec()), 2 => 0x20u8..0x7f, 1 => any::<u8>()]
}

fn string_bytes() -> impl Strategy<Value = Vec<u8>> {
    prop_oneof![
        // valid strings with plenty of multi-byte characters
        4 => prop::collection::vec(prop_oneof![3 => prop::sample::select(CHARS.to_vec()), 2 => any::<char>(), 2 => prop::char::range('a', 'z')], 0..24)
            .prop_map(|cs| cs.into_iter().collect::<String>().into_bytes()),
        // a valid string damaged at one position
        2 => (prop::collection::vec(prop::sample::select(CHARS.to_vec()), 1..10), any::<u16>(), byte_strategy(), any::<bool>())
            .prop_map(|(cs, at, b, truncate)| {
                let mut v = cs.into_iter().collect::<String>().into_bytes();
                let i = vcore::pick(at, v.len());
                if truncate { v.truncate(i) } else { v[i] = b }
                v
            }),
        2 => prop::collection::vec(byte_strategy(), 0..12),
    ]
}

pub fn strategy() -> impl Strategy<Value = Case> {
    // the string it is compared with: independent, or the same string with one to three characters
    // changed / two characters swapped (long common prefixes, differences close together)
    let edits = prop::collection::vec((any::<u16>(), prop::sample::select(vec!['a', 'b', 'z', '0', 'é', '\u{0}', '~'])), 1..4);
    (string_bytes(), string_bytes(), any::<u16>(), any::<u16>(), any::<u16>(), prop::option::weighted(0.5, (edits, any::<bool>()))).prop_map(|(bytes, other, sp, a, e, near)| {
        let split = vcore::pick(sp, bytes.len() + 2);
        let other = match (near, std::str::from_utf8(&bytes)) {
            (Some((edits, swap)), Ok(s)) if s.chars().count() >= 2 => {
                let mut cs: Vec<char> = s.chars().collect();
                if swap {
                    let i = vcore::pick(edits[0].0, cs.len() - 1);
                    cs.swap(i, i + 1);
                }
                for (at, ch) in edits.iter().skip(if swap { 1 } else { 0 }) {
                    let i = vcore::pick(*at, cs.len());
                    cs[i] = *ch;
                }
                cs.into_iter().collect::<String>().into_bytes()
            }
            _ => other,
        };
        Case { bytes, other, split, sub: (a as usize, e as usize) }
    })
}

pub fn case_from_bytes(data: &[u8]) -> Case {
    if data.len() < 4 {
        return Case { bytes: data.to_vec(), other: vec![], split: 0, sub: (0, 65535) };
    }
    let olen = (data[3] as usize % 8).min(data.len() - 4);
    let other = data[4..4 + olen].to_vec();
    let bytes = data[4 + olen..].to_vec();
    let split = (data[0] as usize * (bytes.len() + 2)) >> 8;
    Case { bytes, other, split, sub: ((data[1] as usize) << 8, (data[2] as usize) << 8) }
}

const RULE: &str = "byte string built into a ByteString through every constructor (and through Deserialize, the input handed to the visitor as str / String / borrowed str / bytes / owned byte buffer / borrowed bytes; Serialize compared with str through serde_json) and compared with str on validity, content, formatting, hashing, ordering (also against near copies of the same string: one to three characters changed or two swapped), split_at (all indices 0..=len+1 for short inputs, panic parity under catch_unwind) and slice_ref (all char-boundary sub-slices for short inputs), recursively on derived values; non-trivial = input contains a byte >= 0x80 (multi-byte sequence or invalid byte); distinct by the whole case";

pub fn run(ctx: &Ctx) {
    ctx.assume("`str`/`String` of the standard library are the reference; hashing is compared with std's DefaultHasher and, write call by write call, with a recording hasher");
    ctx.run_corpus::<Case>("bytes", check_case);
    // exhaustive over bytes
    let max_len = ctx.tier.pick(4u32, 5u32);
    let k = ALPHABET.len() as u64;
    let total: u64 = (0..=max_len).map(|l| k.pow(l)).sum();
    ctx.run_enum(
        Part::new("bytes-exhaustive", RULE, total),
        |shard, n, f: &mut dyn FnMut(&Case) -> bool| {
            let mut ix = shard as u64;
            while ix < total {
                let bytes = crate::c15::nth_string(ix, &ALPHABET);
                let other = OTHERS[(ix % OTHERS.len() as u64) as usize].as_bytes().to_vec();
                if !f(&Case { bytes, other, split: 0, sub: (0, 65535) }) {
                    return;
                }
                ix += n as u64;
            }
        },
        check_case,
    );
    // exhaustive over valid strings: all strings of <= 5 (quick 4) chars over 7 characters, each against every OTHERS
    let max_chars = ctx.tier.pick(4u32, 5u32);
    let total_c: u64 = (0..=max_chars).map(|l| (CHARS.len() as u64).pow(l)).sum::<u64>() * OTHERS.len() as u64;
    ctx.run_enum(
        Part::new("chars-exhaustive", RULE, total_c),
        |shard, n, f: &mut dyn FnMut(&Case) -> bool| {
            let mut ix = shard as u64;
            while ix < total_c {
                let o = (ix % OTHERS.len() as u64) as usize;
                let idx = crate::c15::nth_string(ix / OTHERS.len() as u64, &[0, 1, 2, 3, 4, 5, 6]);
                let s: String = idx.iter().map(|i| CHARS[*i as usize]).collect();
                if !f(&Case { bytes: s.into_bytes(), other: OTHERS[o].as_bytes().to_vec(), split: 0, sub: (0, 65535) }) {
                    return;
                }
                ix += n as u64;
            }
        },
        check_case,
    );
    ctx.run_random(
        Part::new("bytes", RULE, ctx.tier.scale(30_000, 20)).floors(&[("valid-multibyte", 0.2), ("invalid-input", 0.1), ("split-inside-codepoint", 0.1)]),
        strategy,
        check_case,
    );
    if ctx.tier == vcore::Tier::Thorough {
        ctx.run_fuzz(
            vcore::fuzz::Campaign { target: "c20_bytestring", part: "bytes", runs_per_proc: 10_000, procs: 8, max_len: 48, rule: RULE },
            &[b"\x80\x00\xff\x02a\xc3a\xc3\xa9\xe2\x82\xac".to_vec(), "\u{40}\0\u{7f}\0héllo😀".as_bytes().to_vec()],
            &|bytes| {
                let c = case_from_bytes(bytes);
                let r = check_case(&c);
                Some((serde_json::to_value(&c).unwrap(), r))
            },
            &|v| serde_json::from_value::<Case>(v.clone()).ok().map(|c| check_case(&c)),
        );
    }
}

pub fn replay(ctx: &Ctx, v: &Value) -> i32 {
    ctx.replay::<Case>(v, check_case)
}
