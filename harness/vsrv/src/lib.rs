//! Server / runtime / TLS checks: L2 stepped accept loop, L3 in-thread worker, L4 end-to-end.
//!
//! `--cfg verif_nohooks` (set by ./check only when the instrumented build of actix-server does not
//! compile against the tree under test) leaves out everything that needs the hooks: the stepped
//! layers L2/L3 and accept-error injection. What remains uses public API only.
pub mod kinds;
#[cfg(not(verif_nohooks))]
pub mod l2;
#[cfg(not(verif_nohooks))]
pub mod l2props;
#[cfg(not(verif_nohooks))]
pub mod l3;
pub mod l4;
#[cfg(not(verif_nohooks))]
pub mod props;
#[cfg(verif_nohooks)]
#[path = "props_nohooks.rs"]
pub mod props;
pub mod rt;
pub mod sig;
