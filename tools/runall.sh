#!/bin/bash
# tools/runall.sh [quick|thorough] : run every check once, print id, exit code and wall time
TIER=${1:-quick}
cd /verif
for i in $(seq -w 1 20); do
  id=C$i
  s=$(date +%s.%N)
  ./check $id $TIER > /tmp/runall_$id.log 2>&1; rc=$?
  e=$(date +%s.%N)
  printf "%s rc=%d %.1fs %s\n" $id $rc $(echo "$e - $s" | bc) "$(grep -cE '^VIOLATION' /tmp/runall_$id.log) violations"
done
