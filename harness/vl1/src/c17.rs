//! C17 — Counter and LocalWaker: capacity gate with a guaranteed wake on release.
//!
//! Oracle: reference model (live guard count, most recent "unavailable" waker, registered waker).

use std::{
    panic::{catch_unwind, AssertUnwindSafe},
    sync::{
        atomic::{AtomicUsize, Ordering},
        Arc,
    },
    task::{Context, Wake, Waker},
};

use actix_utils::counter::{Counter, CounterGuard};
use local_waker::LocalWaker;
use proptest::prelude::*;
use serde::{Deserialize, Serialize};
use serde_json::Value;
use vcore::{vensure, vfail, CaseResult, Ctx, Obs, Part};

pub struct CountWaker(pub AtomicUsize);
impl Wake for CountWaker {
    fn wake(self: Arc<Self>) {
        self.0.fetch_add(1, Ordering::SeqCst);
    }
    fn wake_by_ref(self: &Arc<Self>) {
        self.0.fetch_add(1, Ordering::SeqCst);
    }
}
pub fn count_waker() -> (Arc<CountWaker>, Waker) {
    let a = Arc::new(CountWaker(AtomicUsize::new(0)));
    (a.clone(), Waker::from(a))
}

// ---- Counter -----------------------------------------------------------------------------------

thread_local! {
    /// what a re-entrant waker looks at when it is woken: a handle of the counter under test
    static REENTRANT: std::cell::RefCell<Option<Counter>> = const { std::cell::RefCell::new(None) };
}

/// A waker whose `wake()` does at once what the woken task would do: ask the counter again. It
/// records the answer (available?, total) of that re-entrant query.
pub struct ReentrantWaker {
    pub wakes: AtomicUsize,
    /// 0 = nothing recorded, 1 = available() was false, 2 = true; total in the upper bits
    pub seen: AtomicUsize,
}
impl ReentrantWaker {
    fn observe(&self) {
        self.wakes.fetch_add(1, Ordering::SeqCst);
        REENTRANT.with(|r| {
            // `try_borrow`: a wake-up issued while the harness itself holds the slot is only counted
            if let Ok(g) = r.try_borrow() {
                if let Some(c) = g.as_ref() {
                    let (_cw, w) = count_waker();
                    let cx = Context::from_waker(&w);
                    let a = c.available(&cx);
                    self.seen.store((c.total() << 2) | if a { 2 } else { 1 }, Ordering::SeqCst);
                }
            }
        });
    }
}
impl Wake for ReentrantWaker {
    fn wake(self: Arc<Self>) {
        self.observe();
    }
    fn wake_by_ref(self: &Arc<Self>) {
        self.observe();
    }
}

#[derive(Clone, Copy, Debug, Serialize, Deserialize, PartialEq)]
pub enum COp {
    /// acquire a guard through handle `h`
    Get { h: u16 },
    /// drop the live guard selected by `k`
    DropGuard { k: u16 },
    /// the same, but the guard is dropped by a panic that unwinds through its owner (and is
    /// contained): the slot is released and the parked task woken all the same
    DropGuardUnwinding { k: u16 },
    /// query `available` through handle `h` with waker `w` (0 or 1)
    Avail { h: u16, w: u8 },
    /// clone handle `h`
    CloneHandle { h: u16 },
    /// drop handle `h` (at least one handle is kept)
    DropHandle { h: u16 },
    /// read `total` through handle `h`
    Total { h: u16 },
    /// `{:?}`-format handle `h` into a writer that fails after `n` bytes
    DebugFail { h: u16, n: u8 },
}

#[derive(Clone, Debug, Serialize, Deserialize, PartialEq)]
pub struct CounterCase {
    pub capacity: usize,
    pub ops: Vec<COp>,
}

pub fn check_counter(c: &CounterCase) -> CaseResult {
    let r = catch_unwind(AssertUnwindSafe(|| check_counter_inner(c)));
    match r {
        Ok(r) => r,
        Err(p) => vfail!("C17/counter-panic", "Counter panicked: {}", vcore::panic_message(&*p)),
    }
}

fn check_counter_inner(c: &CounterCase) -> CaseResult {
    let cap = c.capacity;
    // kept in `Sut`: leaked instead of dropped while a panic of the counter unwinds
    let mut handles = vec![vcore::Sut::new(Counter::new(cap))];
    let mut guards: Vec<vcore::Sut<CounterGuard>> = vec![];
    let wakers = [count_waker(), count_waker()];
    let re = Arc::new(ReentrantWaker { wakes: AtomicUsize::new(0), seen: AtomicUsize::new(0) });
    let re_waker = Waker::from(re.clone());
    REENTRANT.with(|r| *r.borrow_mut() = Some((*handles[0]).clone()));
    struct ClearSlot;
    impl Drop for ClearSlot {
        fn drop(&mut self) {
            if !std::thread::panicking() {
                REENTRANT.with(|r| *r.borrow_mut() = None);
            } else {
                REENTRANT.with(|r| std::mem::forget(r.borrow_mut().take()));
            }
        }
    }
    let _clear = ClearSlot;
    let mut reentrant_checked = false;
    // model
    let mut live = 0usize;
    // (waker index, its wake count when it was answered "unavailable")
    let mut waiting: Option<(usize, usize)> = None;
    let mut obs = Obs::new();
    let (mut reached_cap, mut released_after_cap, mut used) = (false, false, [false, false, false]);
    let mut wake_checked = false;
    let wake_count = |w: usize| if w < 2 { wakers[w].0 .0.load(Ordering::SeqCst) } else { re.wakes.load(Ordering::SeqCst) };
    for (step, op) in c.ops.iter().enumerate() {
        match *op {
            COp::Get { h } => {
                let i = vcore::pick(h, handles.len());
                guards.push(vcore::Sut::new(handles[i].get()));
                live += 1;
            }
            COp::DropGuard { k } | COp::DropGuardUnwinding { k } => {
                if guards.is_empty() {
                    continue;
                }
                let i = vcore::pick(k, guards.len());
                let unwinding = matches!(op, COp::DropGuardUnwinding { .. });
                // the wake-up belongs to the very drop that brings the count below the capacity
                // (an earlier one would find the counter still full)
                let before = waiting.map(|(w, _)| wake_count(w));
                re.seen.store(0, Ordering::SeqCst);
                if unwinding {
                    let g = guards.remove(i).into_inner();
                    let _ = catch_unwind(AssertUnwindSafe(move || {
                        let _owned = g;
                        std::panic::resume_unwind(Box::new("verif: the guard's owner unwinds"));
                    }));
                } else {
                    drop(guards.remove(i));
                }
                let crossing = live == cap; // live goes cap -> cap-1: count is now below the capacity
                live -= 1;
                if reached_cap {
                    released_after_cap = true;
                }
                if crossing {
                    if let Some((w, _at)) = waiting.take() {
                        let now = wake_count(w);
                        wake_checked = true;
                        vensure!(now > before.unwrap_or(0), "C17/counter-lost-wake",
                            "step {}: a guard drop brought the count below capacity {} but the task most recently answered 'unavailable' (waker {}) was not woken by it; ops {:?}",
                            step, cap, w, c.ops);
                        if w == 2 {
                            // the woken task asks again at once: the count is below the capacity now
                            let seen = re.seen.load(Ordering::SeqCst);
                            if seen != 0 {
                                reentrant_checked = true;
                                let (avail, total) = (seen & 3 == 2, seen >> 2);
                                vensure!(avail && total == live, "C17/counter-wake-too-early",
                                    "step {}: the task woken by the guard drop that brought the count below capacity {} asked again from inside its wake-up and was answered available() = {}, total() = {} (live guards: {}); ops {:?}",
                                    step, cap, avail, total, live, c.ops);
                            }
                        }
                    }
                }
            }
            COp::Avail { h, w } => {
                let i = vcore::pick(h, handles.len());
                let w = (w % 3) as usize;
                used[w] = true;
                let cx = Context::from_waker(if w < 2 { &wakers[w].1 } else { &re_waker });
                let got = handles[i].available(&cx);
                let want = live < cap;
                vensure!(got == want, "C17/counter-available",
                    "step {}: available() = {} with {} live guards and capacity {}; ops {:?}", step, got, live, cap, c.ops);
                if !got {
                    waiting = Some((w, wake_count(w)));
                }
            }
            COp::CloneHandle { h } => {
                let i = vcore::pick(h, handles.len());
                let n = (*handles[i]).clone();
                handles.push(vcore::Sut::new(n));
            }
            COp::DropHandle { h } => {
                if handles.len() > 1 {
                    let i = vcore::pick(h, handles.len());
                    handles.remove(i);
                }
            }
            COp::DebugFail { h, n } => {
                use std::fmt::Write;
                let i = vcore::pick(h, handles.len());
                let mut wtr = FailingWriter(n as usize % 80);
                let _ = write!(wtr, "{:?}", &*handles[i]);
            }
            COp::Total { h } => {
                let i = vcore::pick(h, handles.len());
                let got = handles[i].total();
                vensure!(got == live, "C17/counter-total", "step {}: total() = {} but {} guards are alive; ops {:?}", step, got, live, c.ops);
            }
        }
        // total is checked after every op through every handle (cheap)
        for hd in &handles {
            vensure!(hd.total() == live, "C17/counter-total", "step {}: total() = {} but {} guards are alive; ops {:?}", step, hd.total(), live, c.ops);
        }
        if live >= cap {
            reached_cap = true;
        }
    }
    obs.nontrivial = reached_cap && released_after_cap;
    obs.label_if(wake_checked, "wake-on-release-checked");
    obs.label_if(reentrant_checked, "re-entrant-wake-checked");
    obs.label_if(used[0] && used[1], "two-wakers");
    obs.label_if(handles.len() > 1, "cloned");
    obs.label_if(live > cap, "over-capacity");
    Ok(obs)
}

/// a `fmt::Write` that accepts `.0` bytes and then fails
pub struct FailingWriter(pub usize);
impl std::fmt::Write for FailingWriter {
    fn write_str(&mut self, s: &str) -> std::fmt::Result {
        if s.len() > self.0 {
            self.0 = 0;
            return Err(std::fmt::Error);
        }
        self.0 -= s.len();
        Ok(())
    }
}

// ---- LocalWaker --------------------------------------------------------------------------------

#[derive(Clone, Copy, Debug, Serialize, Deserialize, PartialEq)]
pub enum WOp {
    Register(u8),
    Wake,
    /// `take()` and wake what was taken (the documented use)
    TakeWake,
    /// `take()` and drop it
    TakeDrop,
    /// `{:?}`-format the LocalWaker into a writer that fails after `n` bytes (a bounded log line):
    /// looking at it must not change it
    DebugFail(u8),
}

#[derive(Clone, Debug, Serialize, Deserialize, PartialEq)]
pub struct WakerCase {
    pub ops: Vec<WOp>,
}

pub fn check_waker(c: &WakerCase) -> CaseResult {
    let r = catch_unwind(AssertUnwindSafe(|| check_waker_inner(c)));
    match r {
        Ok(r) => r,
        Err(p) => vfail!("C17/localwaker-panic", "LocalWaker panicked: {}", vcore::panic_message(&*p)),
    }
}

fn check_waker_inner(c: &WakerCase) -> CaseResult {
    let lw = LocalWaker::new();
    let wakers = [count_waker(), count_waker()];
    let mut reg: Option<usize> = None;
    let mut want = [0usize; 2];
    let mut used = [false, false];
    let mut woke_registered = false;
    for (step, op) in c.ops.iter().enumerate() {
        match *op {
            WOp::Register(w) => {
                let w = (w % 2) as usize;
                used[w] = true;
                let was = lw.register(&wakers[w].1);
                vensure!(was == reg.is_some(), "C17/localwaker-register-result",
                    "step {}: register returned {} but a waker was{} registered; ops {:?}", step, was, if reg.is_some() { "" } else { " not" }, c.ops);
                reg = Some(w);
            }
            WOp::Wake => {
                lw.wake();
                if let Some(w) = reg.take() {
                    want[w] += 1;
                    woke_registered = true;
                }
            }
            WOp::DebugFail(n) => {
                use std::fmt::Write;
                let mut wtr = FailingWriter(n as usize % 40);
                let _ = write!(wtr, "{:?}", lw);
                let mut full = String::new();
                let _ = write!(full, "{:?}", lw);
            }
            WOp::TakeWake | WOp::TakeDrop => {
                let t = lw.take();
                vensure!(t.is_some() == reg.is_some(), "C17/localwaker-take",
                    "step {}: take() returned {} but model says registered = {:?}; ops {:?}", step, t.is_some(), reg, c.ops);
                if let Some(t) = t {
                    let w = reg.take().unwrap();
                    vensure!(t.will_wake(&wakers[w].1), "C17/localwaker-take", "step {}: take() returned a waker other than the most recently registered one; ops {:?}", step, c.ops);
                    if matches!(op, WOp::TakeWake) {
                        t.wake();
                        want[w] += 1;
                    }
                }
            }
        }
        for w in 0..2 {
            let got = wakers[w].0 .0.load(Ordering::SeqCst);
            vensure!(got == want[w], "C17/localwaker-wake-count",
                "step {}: waker {} woken {} times, expected {} (wake must wake the most recently registered waker exactly once); ops {:?}", step, w, got, want[w], c.ops);
        }
    }
    let mut obs = Obs::new();
    obs.nontrivial = used[0] && used[1] && woke_registered;
    obs.label_if(woke_registered, "woke-registered");
    obs.label_if(used[0] && used[1], "two-wakers");
    Ok(obs)
}

// ---- generators --------------------------------------------------------------------------------

const C_ALPHA: [COp; 8] = [
    COp::Get { h: 0 },
    COp::DropGuard { k: 0 },
    COp::DropGuard { k: 65535 },
    COp::Avail { h: 65535, w: 0 },
    COp::Avail { h: 0, w: 1 },
    COp::Avail { h: 0, w: 2 },
    COp::CloneHandle { h: 0 },
    COp::DropHandle { h: 0 },
];
const W_ALPHA: [WOp; 7] = [WOp::Register(0), WOp::Register(1), WOp::Wake, WOp::TakeWake, WOp::TakeDrop, WOp::DebugFail(0), WOp::DebugFail(14)];

fn cop() -> impl Strategy<Value = COp> {
    prop_oneof![
        4 => any::<u16>().prop_map(|h| COp::Get { h }),
        4 => any::<u16>().prop_map(|k| COp::DropGuard { k }),
        1 => any::<u16>().prop_map(|k| COp::DropGuardUnwinding { k }),
        4 => (any::<u16>(), 0u8..3).prop_map(|(h, w)| COp::Avail { h, w }),
        1 => any::<u16>().prop_map(|h| COp::CloneHandle { h }),
        1 => any::<u16>().prop_map(|h| COp::DropHandle { h }),
        1 => any::<u16>().prop_map(|h| COp::Total { h }),
        1 => (any::<u16>(), any::<u8>()).prop_map(|(h, n)| COp::DebugFail { h, n }),
    ]
}

pub fn counter_strategy() -> impl Strategy<Value = CounterCase> {
    (0usize..5, prop::collection::vec(cop(), 0..40)).prop_map(|(capacity, ops)| CounterCase { capacity, ops })
}

pub fn waker_strategy() -> impl Strategy<Value = WakerCase> {
    prop::collection::vec(prop::sample::select(W_ALPHA.to_vec()), 0..24).prop_map(|ops| WakerCase { ops })
}

pub fn counter_case_from_bytes(data: &[u8]) -> CounterCase {
    let capacity = data.first().map(|b| (*b % 5) as usize).unwrap_or(1);
    let ops = data.iter().skip(1).map(|b| {
        let sel = ((*b >> 3) as u16) << 11;
        match b % 8 {
            0 | 1 => COp::Get { h: sel },
            2 | 3 => COp::DropGuard { k: sel },
            4 => COp::Avail { h: sel, w: 0 },
            5 => COp::Avail { h: sel, w: 1 },
            6 => COp::CloneHandle { h: sel },
            _ => COp::DropHandle { h: sel },
        }
    }).collect();
    CounterCase { capacity, ops }
}

const RULE_C: &str = "operation sequences over {acquire guard, drop a live guard, available(waker 0|1|a re-entrant waker that asks the counter again from inside its wake-up), clone/drop a counter handle, total, Debug-format a handle into a writer that fails after n bytes} applied to actix_utils::counter::Counter and to a reference model (live count; most recent 'unavailable' waker must be woken by the very drop that takes the count from capacity to capacity-1, and a task that asks again from inside that wake-up is answered 'available' with the new total; extra wake-ups allowed); non-trivial = the count reached the capacity and a guard was dropped afterwards; distinct by (capacity, ops)";
const RULE_W: &str = "operation sequences over {register(w0|w1), wake, take+wake, take+drop, Debug-format into a writer that fails at once or after 14 bytes} on LocalWaker vs a model (register returns whether one was registered; wake wakes the most recently registered waker exactly once); non-trivial = both wakers used and a registered waker was woken";

pub fn run(ctx: &Ctx) {
    ctx.assume("wake-ups are observed with counting wakers; for Counter extra wake-ups are accepted (the property only forbids lost ones), for LocalWaker counts must match exactly");
    ctx.run_corpus::<CounterCase>("counter", check_counter);
    ctx.run_corpus::<WakerCase>("localwaker", check_waker);
    // exhaustive Counter: all sequences up to length 7 (thorough 9) over an 8-op alphabet, capacities 0..3
    let max_len = ctx.tier.pick(7u32, 9u32);
    let k = C_ALPHA.len() as u64;
    let per_cap: u64 = (0..=max_len).map(|l| k.pow(l)).sum();
    let total = per_cap * 4;
    ctx.run_enum(
        Part::new("counter-exhaustive", RULE_C, total),
        |shard, n, f: &mut dyn FnMut(&CounterCase) -> bool| {
            let idx: Vec<u8> = (0..k as u8).collect();
            let mut ix = shard as u64;
            while ix < total {
                let capacity = (ix % 4) as usize;
                let s = crate::c15::nth_string(ix / 4, &idx);
                let ops = s.iter().map(|i| C_ALPHA[*i as usize]).collect();
                if !f(&CounterCase { capacity, ops }) {
                    return;
                }
                ix += n as u64;
            }
        },
        check_counter,
    );
    let wl = ctx.tier.pick(7u32, 9u32);
    let kw = W_ALPHA.len() as u64;
    let total_w: u64 = (0..=wl).map(|l| kw.pow(l)).sum();
    ctx.run_enum(
        Part::new("localwaker-exhaustive", RULE_W, total_w),
        |shard, n, f: &mut dyn FnMut(&WakerCase) -> bool| {
            let idx: Vec<u8> = (0..kw as u8).collect();
            let mut ix = shard as u64;
            while ix < total_w {
                let s = crate::c15::nth_string(ix, &idx);
                if !f(&WakerCase { ops: s.iter().map(|i| W_ALPHA[*i as usize]).collect() }) {
                    return;
                }
                ix += n as u64;
            }
        },
        check_waker,
    );
    ctx.run_random(
        Part::new("counter", RULE_C, ctx.tier.scale(40_000, 20)).floors(&[("wake-on-release-checked", 0.15), ("two-wakers", 0.3), ("over-capacity", 0.1)]),
        counter_strategy,
        check_counter,
    );
    ctx.run_random(Part::new("localwaker", RULE_W, ctx.tier.scale(20_000, 20)).floors(&[("woke-registered", 0.4)]), waker_strategy, check_waker);
    if ctx.tier == vcore::Tier::Thorough {
        ctx.run_fuzz(
            vcore::fuzz::Campaign { target: "c17_counter", part: "counter", runs_per_proc: 400_000, procs: 4, max_len: 48, rule: RULE_C },
            &[vec![1, 0, 0, 4, 2, 2], vec![2, 0, 0, 0, 5, 2, 4, 2, 2]],
            &|bytes| {
                let c = counter_case_from_bytes(bytes);
                let r = check_counter(&c);
                Some((serde_json::to_value(&c).unwrap(), r))
            },
            &|v| serde_json::from_value::<CounterCase>(v.clone()).ok().map(|c| check_counter(&c)),
        );
    }
}

pub fn replay(ctx: &Ctx, v: &Value) -> i32 {
    match v["part"].as_str().unwrap_or("") {
        p if p.starts_with("counter") => ctx.replay::<CounterCase>(v, check_counter),
        p if p.starts_with("localwaker") => ctx.replay::<WakerCase>(v, check_waker),
        p => {
            eprintln!("unknown part {p}");
            2
        }
    }
}
