//! L3 — the real `ServerWorker` future polled by hand on this thread (paused Tokio clock, LocalSet),
//! fed by the real stepped `Accept` through real loopback sockets, with scripted user services.
//! Used by C07 (readiness / restart), C06 (worker shutdown protocol) and the worker side of C01.

use std::{
    cell::{Cell, RefCell},
    collections::VecDeque,
    future::Future,
    panic::{catch_unwind, AssertUnwindSafe},
    pin::Pin,
    rc::Rc,
    sync::{
        atomic::{AtomicUsize, Ordering},
        Arc,
    },
    task::{Context, Poll, Wake, Waker},
    time::Duration,
};

use actix_rt::net::TcpStream;
use actix_server::verif::{self as hv, Listener, Step, Stepped, WakerQueueV, WorkerFut};
use actix_service::{fn_factory, Service};
use serde::{Deserialize, Serialize};
use tokio::sync::oneshot;
use vcore::{CaseResult, Fail, Obs};

#[derive(Clone, Copy, Debug, Serialize, Deserialize, PartialEq, Eq)]
pub enum SvcState {
    Ready,
    Pending,
}

#[derive(Clone, Copy, Debug, Serialize, Deserialize, PartialEq)]
pub enum Op {
    /// a client connects to listener `l`; the accept loop runs to quiescence (dispatch)
    Dispatch { l: u16 },
    /// poll the worker if its waker fired
    Poll,
    MakeReady { s: u16 },
    MakePending { s: u16 },
    /// the next readiness check of service `s` fails once
    FailNext { s: u16 },
    /// the k-th unfinished connection future completes
    FinishConn { k: u16 },
    Advance { ms: u32 },
    Stop { graceful: bool },
    /// a client connects; between the accept loop's send and its inc_counter (hook H3) the worker
    /// runs, takes the connection and calls the service, and a stop arrives ("stop racing new
    /// connections", with the connection in progress but not yet counted)
    DispatchStopRace { l: u16, graceful: bool },
    /// 17..100 clients connect to listener `l` at once (more than any per-poll batch bound)
    DispatchBurst { l: u16, n: u8 },
    /// the next (re-)creation of service `s` stays pending until `ReleaseFactory`
    HoldFactory { s: u16 },
    ReleaseFactory { s: u16 },
}

#[derive(Clone, Debug, Serialize, Deserialize, PartialEq)]
pub struct Case {
    /// number of services = listeners (tokens 0..n)
    pub services: usize,
    pub limit: usize,
    pub shutdown_timeout_s: u32,
    /// polls a (re)created service's factory future stays pending, per service
    pub factory_delay: Vec<u8>,
    pub initial: Vec<SvcState>,
    pub ops: Vec<Op>,
    /// what a call does to its service's readiness, per service: 0 = nothing, 1 = the service is
    /// pending afterwards (it takes one connection at a time; `MakeReady` frees it), 2 = its next
    /// readiness check fails (the service is re-created)
    #[serde(default)]
    pub after_call: Vec<u8>,
}

#[derive(Clone, Copy, Debug, PartialEq, Eq)]
pub enum Prop {
    C01,
    C02,
    C04,
    C06,
    C07,
}

#[derive(Clone, Debug, PartialEq)]
enum Ev {
    /// the worker future is polled (everything up to the next marker happens inside that poll)
    PollBegin,
    Create { token: usize, inst: u32 },
    PollReady { token: usize, inst: u32, ok: Option<bool> }, // None = Pending
    Call { token: usize, inst: u32, conn: Option<usize> },
}

struct ConnSlot {
    done: bool,
    waker: Option<Waker>,
    called: u32,
    finished_at: Option<u64>,
    dropped_unfinished: bool,
    /// the connection's handler future has been dropped (its counter guard goes with it)
    fut_dropped: bool,
}

struct World {
    log: RefCell<Vec<Ev>>,
    state: RefCell<Vec<SvcState>>,
    fail_next: RefCell<Vec<bool>>,
    ready_wakers: RefCell<Vec<Vec<Waker>>>,
    inst: RefCell<Vec<u32>>,
    delay: Vec<u8>,
    /// client local address -> connection id
    idents: RefCell<Vec<(String, usize)>>,
    conns: RefCell<Vec<ConnSlot>>,
    now_ms: Cell<u64>,
    /// factory of service s is held back
    hold: RefCell<Vec<bool>>,
    hold_wakers: RefCell<Vec<Vec<Waker>>>,
    after_call: RefCell<Vec<u8>>,
}

thread_local! {
    static WORLD: RefCell<Option<Rc<World>>> = const { RefCell::new(None) };
}

fn world() -> Rc<World> {
    WORLD.with(|w| w.borrow().clone().expect("L3 world not installed"))
}

struct ScriptedSvc {
    token: usize,
    inst: u32,
    w: Rc<World>,
}

struct ConnFut {
    id: Option<usize>,
    w: Rc<World>,
    _stream: TcpStream,
    completed: bool,
}

impl Future for ConnFut {
    type Output = Result<(), ()>;
    fn poll(mut self: Pin<&mut Self>, cx: &mut Context<'_>) -> Poll<Self::Output> {
        let Some(id) = self.id else { return Poll::Ready(Ok(())) };
        let mut conns = self.w.conns.borrow_mut();
        if conns[id].done {
            drop(conns);
            self.completed = true;
            Poll::Ready(Ok(()))
        } else {
            conns[id].waker = Some(cx.waker().clone());
            Poll::Pending
        }
    }
}

impl Drop for ConnFut {
    fn drop(&mut self) {
        if let Some(id) = self.id {
            if let Ok(mut c) = self.w.conns.try_borrow_mut() {
                c[id].fut_dropped = true;
                if !self.completed {
                    c[id].dropped_unfinished = true;
                }
            }
        }
    }
}

impl Service<TcpStream> for ScriptedSvc {
    type Response = ();
    type Error = ();
    type Future = ConnFut;

    fn poll_ready(&self, cx: &mut Context<'_>) -> Poll<Result<(), ()>> {
        let w = &self.w;
        let r = if w.fail_next.borrow()[self.token] {
            w.fail_next.borrow_mut()[self.token] = false;
            Poll::Ready(Err(()))
        } else {
            match w.state.borrow()[self.token] {
                SvcState::Ready => Poll::Ready(Ok(())),
                SvcState::Pending => {
                    w.ready_wakers.borrow_mut()[self.token].push(cx.waker().clone());
                    Poll::Pending
                }
            }
        };
        w.log.borrow_mut().push(Ev::PollReady {
            token: self.token,
            inst: self.inst,
            ok: match r {
                Poll::Ready(Ok(())) => Some(true),
                Poll::Ready(Err(())) => Some(false),
                Poll::Pending => None,
            },
        });
        r
    }

    fn call(&self, stream: TcpStream) -> ConnFut {
        // (client address, listener address): two clients of different listeners may share a local port
        let ident = format!("{}->{}", stream.peer_addr().map(|a| a.to_string()).unwrap_or_default(), stream.local_addr().map(|a| a.to_string()).unwrap_or_default());
        let id = self.w.idents.borrow().iter().find(|(a, _)| *a == ident).map(|(_, id)| *id);
        if let Some(id) = id {
            self.w.conns.borrow_mut()[id].called += 1;
        }
        self.w.log.borrow_mut().push(Ev::Call { token: self.token, inst: self.inst, conn: id });
        match self.w.after_call.borrow()[self.token] {
            1 => self.w.state.borrow_mut()[self.token] = SvcState::Pending,
            2 => self.w.fail_next.borrow_mut()[self.token] = true,
            _ => {}
        }
        ConnFut { id, w: self.w.clone(), _stream: stream, completed: false }
    }
}

/// a future that is pending `k` times, waking itself each time
struct Yield(u8);
impl Future for Yield {
    type Output = ();
    fn poll(mut self: Pin<&mut Self>, cx: &mut Context<'_>) -> Poll<()> {
        if self.0 == 0 {
            Poll::Ready(())
        } else {
            self.0 -= 1;
            cx.waker().wake_by_ref();
            Poll::Pending
        }
    }
}

/// pending while the factory of `token` is held back by the script
struct HoldGate(usize, Rc<World>);
impl Future for HoldGate {
    type Output = ();
    fn poll(self: Pin<&mut Self>, cx: &mut Context<'_>) -> Poll<()> {
        if self.1.hold.borrow()[self.0] {
            self.1.hold_wakers.borrow_mut()[self.0].push(cx.waker().clone());
            Poll::Pending
        } else {
            Poll::Ready(())
        }
    }
}

fn factory_for(token: usize) -> hv::Factory {
    hv::stream_factory::<_, TcpStream>(&format!("svc{token}"), token, move || {
        fn_factory(move || {
            let w = world();
            async move {
                let inst = {
                    let mut i = w.inst.borrow_mut();
                    i[token] += 1;
                    i[token]
                };
                w.log.borrow_mut().push(Ev::Create { token, inst });
                Yield(w.delay.get(token).copied().unwrap_or(0)).await;
                HoldGate(token, w.clone()).await;
                Ok::<_, ()>(ScriptedSvc { token, inst, w })
            }
        })
    })
}

struct FlagWaker(AtomicUsize);
impl Wake for FlagWaker {
    fn wake(self: Arc<Self>) {
        self.0.fetch_add(1, Ordering::SeqCst);
    }
    fn wake_by_ref(self: &Arc<Self>) {
        self.0.fetch_add(1, Ordering::SeqCst);
    }
}

struct StopRec {
    graceful: bool,
    t0: u64,
    rx: oneshot::Receiver<bool>,
    /// connections that had been called and were unfinished at t0
    in_progress: Vec<usize>,
    outcome: Option<Result<bool, ()>>,
}

struct Engine {
    #[allow(dead_code)]
    wq: WakerQueueV,
    worker: Option<Pin<Box<WorkerFut>>>,
    server: hv::HandleServer,
    flag: Arc<FlagWaker>,
    seen_wakes: usize,
    w: Rc<World>,
    addrs: Vec<std::net::SocketAddr>,
    clients: Vec<std::net::TcpStream>,
    /// worker receive order: (conn id, token)
    dispatched: VecDeque<(usize, usize)>,
    all_dispatched: Vec<(usize, usize)>,
    backlog: Vec<VecDeque<usize>>,
    stops: Vec<StopRec>,
    completed_at: Option<u64>,
    found: Vec<(Prop, &'static str, String)>,
    labels: Vec<&'static str>,
    log_checked: usize,
    calls_seen: usize,
    timeout_ms: u64,
    limit: usize,
    /// ids of connections made by a burst
    burst_members: Vec<usize>,
}

impl Engine {
    fn flagv(&mut self, p: Prop, sig: &'static str, msg: String) {
        self.found.push((p, sig, msg));
    }
    fn label(&mut self, l: &'static str) {
        if !self.labels.contains(&l) {
            self.labels.push(l);
        }
    }
    fn woken(&self) -> bool {
        self.flag.0.load(Ordering::SeqCst) > self.seen_wakes
    }

    /// step the accept loop to quiescence and absorb the dispatch log
    fn accept_quiesce(&mut self, stepped: &mut Stepped) {
        for _ in 0..200 {
            let r = catch_unwind(AssertUnwindSafe(|| stepped.step()));
            match r {
                Ok(Step::Blocked) | Ok(Step::Exited) => break,
                Ok(_) => {}
                Err(_) => break,
            }
        }
        for d in hv::take_dispatch_log() {
            if let Some(id) = self.backlog[d.token].pop_front() {
                if d.worker == Some(0) {
                    // C02: in progress = received by the worker and not yet handed to a service,
                    // or handed to a service whose handler future has not been dropped yet
                    if self.stops.is_empty() && self.worker.is_some() {
                        let queued = self.dispatched.len();
                        let running = self.w.conns.borrow().iter().filter(|c| c.called > 0 && !c.fut_dropped).count();
                        if queued + running >= self.limit {
                            self.flagv(Prop::C02, "C02/limit-exceeded", format!("connection {} was dispatched to the worker although it already had {} connections in progress ({} waiting for a service call + {} handlers running), max_concurrent_connections is {}", id, queued + running, queued, running, self.limit));
                            self.flagv(Prop::C04, "C04/saturated-receives", format!("connection {} was dispatched to the worker although it was at its limit and had released nothing ({} waiting for a service call + {} handlers running, max_concurrent_connections {})", id, queued, running, self.limit));
                        }
                        if queued + running + 1 == self.limit {
                            self.label("dispatch-reaches-limit");
                        }
                    }
                    self.dispatched.push_back((id, d.token));
                    self.all_dispatched.push((id, d.token));
                }
            }
        }
    }

    fn poll_worker(&mut self) {
        let Some(worker) = self.worker.as_mut() else { return };
        self.seen_wakes = self.flag.0.load(Ordering::SeqCst);
        let waker = Waker::from(self.flag.clone());
        let mut cx = Context::from_waker(&waker);
        self.w.log.borrow_mut().push(Ev::PollBegin);
        let r = catch_unwind(AssertUnwindSafe(|| worker.as_mut().poll(&mut cx)));
        match r {
            Err(p) => {
                let msg = vcore::panic_message(&*p);
                self.flagv(Prop::C07, "C07/worker-panic", format!("the worker future panicked: {msg}"));
                self.flagv(Prop::C06, "C06/worker-panic", format!("the worker future panicked: {msg}"));
                self.worker = None;
            }
            Ok(Poll::Ready(())) => {
                self.completed_at = Some(self.w.now_ms.get());
                self.worker = None; // drops the ServerWorker (queue receiver first)
            }
            Ok(Poll::Pending) => {}
        }
        self.check_log();
    }

    /// oracle over the new part of the event log
    fn check_log(&mut self) {
        let log = self.w.log.borrow().clone();
        let n = self.w.state.borrow().len();
        for i in self.log_checked..log.len() {
            // (iv) once an instance's readiness check has failed, nothing may touch that service
            // until it has been re-created from its factory
            let tok = match &log[i] {
                Ev::PollReady { token, .. } | Ev::Call { token, .. } => Some(*token),
                Ev::Create { .. } | Ev::PollBegin => None,
            };
            if let Some(t) = tok {
                let failed_before = log[..i]
                    .iter()
                    .rev()
                    .take_while(|e| !matches!(e, Ev::Create { token, .. } if *token == t))
                    .any(|e| matches!(e, Ev::PollReady { token, ok: Some(false), .. } if *token == t));
                if failed_before {
                    self.flagv(Prop::C07, "C07/failed-instance-reused", format!("service {} was used ({:?}) after its readiness check had failed and before it was re-created from its factory", t, log[i]));
                }
            }
            match &log[i] {
                Ev::Call { token, inst, conn } => {
                    self.calls_seen += 1;
                    // (ii) FIFO + routing
                    match (self.dispatched.pop_front(), conn) {
                        (Some((mut want_id, want_tok)), Some(id)) => {
                            // connections of one burst sit in the listener's accept queue together;
                            // the kernel does not promise connect() order there: a later member
                            // of the same burst on the same listener takes the place of this one
                            if *id != want_id && self.burst_members.contains(id) && self.burst_members.contains(&want_id) {
                                if let Some(pos) = self.dispatched.iter().position(|(d, t)| d == id && *t == want_tok) {
                                    self.dispatched[pos].0 = want_id;
                                    want_id = *id;
                                } else if let Some(pos) = self.backlog[want_tok].iter().position(|d| d == id) {
                                    self.backlog[want_tok][pos] = want_id;
                                    want_id = *id;
                                }
                            }
                            if *id != want_id {
                                self.flagv(Prop::C07, "C07/not-fifo", format!("service call for connection {} but connection {} was received first", id, want_id));
                                self.flagv(Prop::C01, "C01/worker-order", format!("service call for connection {} but connection {} was received first", id, want_id));
                            }
                            if *token != want_tok {
                                self.flagv(Prop::C01, "C01/wrong-service", format!("connection {} arrived on listener {} but was handed to the service of listener {}", id, want_tok, token));
                                self.flagv(Prop::C07, "C07/wrong-service", format!("connection {} arrived on listener {} but was handed to the service of listener {}", id, want_tok, token));
                            }
                        }
                        (None, _) => self.flagv(Prop::C01, "C01/phantom-call", "a service was called although no connection had been dispatched".into()),
                        (_, None) => self.flagv(Prop::C01, "C01/unknown-connection", "a service was called with a stream that is none of the harness clients".into()),
                    }
                    if *inst != Self::inst_at(&log, i, *token) {
                        self.flagv(Prop::C07, "C07/call-on-old-instance", format!("call on instance {} of service {} after it was replaced", inst, token));
                    }
                    // (i) every service was polled ready (latest result Ok) since the previous call
                    // and within the worker poll that makes this call ("right after": an answer
                    // from an earlier poll may be stale)
                    let start = (0..i).rev().find(|j| matches!(log[*j], Ev::Call { .. } | Ev::PollBegin)).map(|j| j + 1).unwrap_or(0);
                    for t in 0..n {
                        let last = log[start..i].iter().rev().find_map(|e| match e {
                            Ev::PollReady { token, ok, inst } if *token == t => Some((*ok, *inst)),
                            _ => None,
                        });
                        match last {
                            Some((Some(true), li)) if li == Self::inst_at(&log, i, t) => {}
                            other => {
                                self.flagv(Prop::C07, "C07/call-without-readiness", format!(
                                    "service {} was called (connection {:?}) although service {} had not reported ready right before (its latest readiness result since the previous call: {:?})",
                                    token, conn, t, other));
                            }
                        }
                    }
                }
                Ev::PollReady { token, inst, ok } => {
                    if *inst != Self::inst_at(&log, i, *token) {
                        self.flagv(Prop::C07, "C07/old-instance-polled", format!("poll_ready on instance {} of service {} after it failed and was replaced", inst, token));
                    }
                    if *ok == Some(false) {
                        self.label("readiness-failure");
                    }
                    if ok.is_none() {
                        self.label("readiness-pending");
                    }
                }
                Ev::PollBegin => {}
                Ev::Create { token, .. } => {
                    // (iv) a create must follow a readiness failure of that very service (or be initial)
                    let initial = !log[..i].iter().any(|e| matches!(e, Ev::Create { token: t, .. } if t == token));
                    if !initial {
                        let failed = log[..i].iter().rev().take_while(|e| !matches!(e, Ev::Create { token: t, .. } if t == token)).any(|e| matches!(e, Ev::PollReady { token: t, ok: Some(false), .. } if t == token));
                        if !failed {
                            self.flagv(Prop::C07, "C07/spurious-restart", format!("service {} was re-created although its readiness check had not failed", token));
                        }
                        self.label("restart");
                        let queued = self.dispatched.len();
                        let running = self.w.conns.borrow().iter().filter(|c| c.called > 0 && !c.fut_dropped).count();
                        if queued + running >= self.limit {
                            self.label("restart-while-saturated");
                        }
                    }
                }
            }
        }
        // (iv) exactly one create per failure: count
        for t in 0..n {
            let fails = log.iter().filter(|e| matches!(e, Ev::PollReady { token, ok: Some(false), .. } if *token == t)).count();
            let creates = log.iter().filter(|e| matches!(e, Ev::Create { token, .. } if *token == t)).count();
            if creates > fails + 1 {
                self.flagv(Prop::C07, "C07/spurious-restart", format!("service {} was created {} times for {} readiness failure(s)", t, creates, fails));
            }
        }
        self.log_checked = log.len();
    }

    /// the instance of `token` that is current at log position `i`
    fn inst_at(log: &[Ev], i: usize, token: usize) -> u32 {
        log[..i].iter().rev().find_map(|e| match e {
            Ev::Create { token: t, inst } if *t == token => Some(*inst),
            _ => None,
        }).unwrap_or(0)
    }

    /// issue the (single) stop and run the worker task that the stop channel woke
    fn issue_stop(&mut self, graceful: bool) {
        if !self.stops.is_empty() || self.worker.is_none() {
            return;
        }
        let rx = self.server.stop(graceful);
        let in_progress = self.in_progress_now();
        if !in_progress.is_empty() {
            self.label("stop-with-connections-in-progress");
        }
        if !self.dispatched.is_empty() {
            self.label("stop-with-queued-connections");
        }
        self.label(if graceful { "graceful-stop" } else { "forced-stop" });
        let t0 = self.w.now_ms.get();
        self.stops.push(StopRec { graceful, t0, rx, in_progress, outcome: None });
        if self.woken() {
            self.poll_worker();
        }
    }

    fn in_progress_now(&self) -> Vec<usize> {
        self.w.conns.borrow().iter().enumerate().filter(|(_, c)| c.called > 0 && !c.done).map(|(i, _)| i).collect()
    }

    fn resolve_stops(&mut self) {
        let now = self.w.now_ms.get();
        for i in 0..self.stops.len() {
            if self.stops[i].outcome.is_some() {
                continue;
            }
            match self.stops[i].rx.try_recv() {
                Ok(v) => self.stops[i].outcome = Some(Ok(v)),
                Err(oneshot::error::TryRecvError::Closed) => self.stops[i].outcome = Some(Err(())),
                Err(oneshot::error::TryRecvError::Empty) => continue,
            }
            let s = &self.stops[i];
            let (graceful, t0, outcome) = (s.graceful, s.t0, s.outcome.unwrap());
            let unfinished: Vec<usize> = s.in_progress.iter().copied().filter(|id| !self.w.conns.borrow()[*id].done).collect();
            let last = i + 1 == self.stops.len();
            if let Ok(v) = outcome {
                if graceful {
                    // safety: all in-progress connections finished, or the timeout elapsed
                    if !unfinished.is_empty() && now - t0 < self.timeout_ms {
                        self.flagv(Prop::C06, "C06/graceful-too-early", format!("graceful worker stop completed {} ms after the command with connections {:?} still in progress and shutdown_timeout {} ms", now - t0, unfinished, self.timeout_ms));
                    }
                    if v != unfinished.is_empty() && last {
                        self.flagv(Prop::C06, "C06/graceful-result", format!("graceful worker stop reported {} although unfinished connections = {:?}", v, unfinished));
                    }
                } else if now != t0 {
                    self.flagv(Prop::C06, "C06/forced-waited", format!("forced worker stop completed {} ms after the command", now - t0));
                }
            }
        }
    }
}

pub fn run_case(c: &Case, prop: Prop) -> CaseResult {
    thread_local! {
        static RT: tokio::runtime::Runtime = tokio::runtime::Builder::new_current_thread().enable_all().start_paused(true).build().unwrap();
    }
    RT.with(|rt| {
        let ls = tokio::task::LocalSet::new();
        let r = ls.block_on(rt, run_async(c, prop));
        // tasks that are still parked on the LocalSet (unfinished connections) die with it
        drop(ls);
        WORLD.with(|w| *w.borrow_mut() = None);
        r
    })
}

async fn yield_some() {
    for _ in 0..3 {
        tokio::task::yield_now().await;
    }
}

async fn run_async(c: &Case, prop: Prop) -> CaseResult {
    let n = c.services.clamp(1, 3);
    let w = Rc::new(World {
        log: RefCell::new(vec![]),
        state: RefCell::new((0..n).map(|i| c.initial.get(i).copied().unwrap_or(SvcState::Ready)).collect()),
        fail_next: RefCell::new(vec![false; n]),
        ready_wakers: RefCell::new(vec![vec![]; n]),
        inst: RefCell::new(vec![0; n]),
        delay: c.factory_delay.clone(),
        idents: RefCell::new(vec![]),
        conns: RefCell::new(vec![]),
        now_ms: Cell::new(0),
        hold: RefCell::new(vec![false; n]),
        hold_wakers: RefCell::new(vec![vec![]; n]),
        after_call: RefCell::new((0..n).map(|i| c.after_call.get(i).copied().unwrap_or(0) % 3).collect()),
    });
    WORLD.with(|x| *x.borrow_mut() = Some(w.clone()));
    let _ = hv::take_dispatch_log();
    let prepared = hv::prepare().map_err(|e| Fail::new("harness/setup", format!("{e}")))?;
    let wq = prepared.waker_queue();
    let factories: Vec<hv::Factory> = (0..n).map(factory_for).collect();
    let cfg = hv::worker_config(Duration::from_secs(c.shutdown_timeout_s as u64), c.limit.max(1));
    let (ha, hs, wf) = match hv::in_thread_worker(0, factories, &wq, cfg).await {
        Ok(x) => x,
        Err(()) => return Err(Fail::new("harness/setup", "service factory failed")),
    };
    let mut listeners = vec![];
    let mut addrs = vec![];
    for _ in 0..n {
        let l = std::net::TcpListener::bind("127.0.0.1:0").map_err(|e| Fail::new("harness/setup", format!("{e}")))?;
        addrs.push(l.local_addr().unwrap());
        listeners.push(Listener::Tcp(l));
    }
    let mut stepped = prepared.build(listeners, vec![ha]).map_err(|e| Fail::new("harness/setup", format!("{e}")))?;
    let flag = Arc::new(FlagWaker(AtomicUsize::new(1))); // a freshly spawned task is polled once
    let mut e = Engine {
        wq,
        worker: Some(Box::pin(wf)),
        server: hs,
        flag,
        seen_wakes: 0,
        w: w.clone(),
        addrs,
        clients: vec![],
        dispatched: VecDeque::new(),
        all_dispatched: vec![],
        backlog: vec![VecDeque::new(); n],
        stops: vec![],
        completed_at: None,
        found: vec![],
        labels: vec![],
        log_checked: 0,
        calls_seen: 0,
        timeout_ms: c.shutdown_timeout_s as u64 * 1000,
        limit: c.limit.max(1),
        burst_members: vec![],
    };
    e.check_log();
    let mut queued_while_unready = false;
    for op in &c.ops {
        match *op {
            Op::Dispatch { l } => {
                if e.worker.is_none() && e.completed_at.is_some() {
                    continue;
                }
                if e.clients.len() >= 10 {
                    continue;
                }
                let l = vcore::pick(l, n);
                if let Ok(s) = std::net::TcpStream::connect(e.addrs[l]) {
                    let _ = socket2::SockRef::from(&s).set_linger(Some(Duration::ZERO));
                    let id = e.clients.len();
                    w.idents.borrow_mut().push((format!("{}->{}", s.local_addr().map(|a| a.to_string()).unwrap_or_default(), e.addrs[l]), id));
                    w.conns.borrow_mut().push(ConnSlot { done: false, waker: None, called: 0, finished_at: None, dropped_unfinished: false, fut_dropped: false });
                    e.clients.push(s);
                    e.backlog[l].push_back(id);
                    e.accept_quiesce(&mut stepped);
                    let unready = w.state.borrow().iter().any(|s| *s == SvcState::Pending) || w.fail_next.borrow().iter().any(|f| *f);
                    if unready {
                        queued_while_unready = true;
                    }
                }
            }
            Op::DispatchBurst { l, n: nb } => {
                if (e.worker.is_none() && e.completed_at.is_some()) || e.clients.len() > 10 {
                    continue;
                }
                let l = vcore::pick(l, n);
                let count = 17 + (nb as usize % 84);
                for _ in 0..count {
                    if let Ok(s) = std::net::TcpStream::connect(e.addrs[l]) {
                        let _ = socket2::SockRef::from(&s).set_linger(Some(Duration::ZERO));
                        let id = e.clients.len();
                        w.idents.borrow_mut().push((format!("{}->{}", s.local_addr().map(|a| a.to_string()).unwrap_or_default(), e.addrs[l]), id));
                        w.conns.borrow_mut().push(ConnSlot { done: false, waker: None, called: 0, finished_at: None, dropped_unfinished: false, fut_dropped: false });
                        e.clients.push(s);
                        e.backlog[l].push_back(id);
                        e.burst_members.push(id);
                    }
                }
                e.accept_quiesce(&mut stepped);
                e.label("burst");
                let unready = w.state.borrow().iter().any(|s| *s == SvcState::Pending) || w.fail_next.borrow().iter().any(|f| *f);
                if unready {
                    queued_while_unready = true;
                    e.label("burst-while-unready");
                }
            }
            Op::HoldFactory { s } => {
                let s = vcore::pick(s, n);
                w.hold.borrow_mut()[s] = true;
            }
            Op::ReleaseFactory { s } => {
                let s = vcore::pick(s, n);
                w.hold.borrow_mut()[s] = false;
                let ws: Vec<Waker> = w.hold_wakers.borrow_mut()[s].drain(..).collect();
                for wk in ws {
                    wk.wake();
                }
            }
            Op::Poll => {
                if e.woken() {
                    e.poll_worker();
                    yield_some().await;
                    e.resolve_stops();
                }
            }
            Op::MakeReady { s } => {
                let s = vcore::pick(s, n);
                w.state.borrow_mut()[s] = SvcState::Ready;
                let ws: Vec<Waker> = w.ready_wakers.borrow_mut()[s].drain(..).collect();
                for wk in ws {
                    wk.wake();
                }
            }
            Op::MakePending { s } => {
                let s = vcore::pick(s, n);
                w.state.borrow_mut()[s] = SvcState::Pending;
            }
            Op::FailNext { s } => {
                let s = vcore::pick(s, n);
                w.fail_next.borrow_mut()[s] = true;
                // a service whose state changes wakes whoever waits for it
                let ws: Vec<Waker> = w.ready_wakers.borrow_mut()[s].drain(..).collect();
                for wk in ws {
                    wk.wake();
                }
            }
            Op::FinishConn { k } => {
                let live = e.in_progress_now();
                if !live.is_empty() {
                    let id = live[vcore::pick(k, live.len())];
                    let wk = {
                        let mut cs = w.conns.borrow_mut();
                        cs[id].done = true;
                        cs[id].finished_at = Some(w.now_ms.get());
                        cs[id].waker.take()
                    };
                    if let Some(wk) = wk {
                        wk.wake();
                    }
                    yield_some().await; // the spawned connection task completes and drops its guard
                    e.accept_quiesce(&mut stepped);
                }
            }
            Op::Advance { ms } => {
                // advance in slices: a timer that fires wakes the worker task and a real executor
                // runs it right away (completion times are judged, the poll must not lag behind)
                let mut left = ms as u64;
                loop {
                    let slice = left.min(100);
                    tokio::time::advance(Duration::from_millis(slice)).await;
                    w.now_ms.set(w.now_ms.get() + slice);
                    yield_some().await;
                    if e.woken() {
                        e.poll_worker();
                        yield_some().await;
                        e.resolve_stops();
                    }
                    left -= slice;
                    if left == 0 {
                        break;
                    }
                }
            }
            Op::Stop { graceful } => {
                // precondition of the worker protocol: ServerInner sends each worker exactly one Stop
                // (repeated stop() calls are exercised end-to-end in the L4 part)
                if !e.stops.is_empty() {
                    continue;
                }
                e.issue_stop(graceful);
                yield_some().await;
                e.resolve_stops();
                // a forced stop must complete in that very turn
                if !graceful && e.worker.is_some() {
                    e.flagv(Prop::C06, "C06/forced-not-immediate", "forced worker stop did not complete in the executor turn that delivered the command".into());
                }
            }
            Op::DispatchStopRace { l, graceful } => {
                if !e.stops.is_empty() || e.worker.is_none() || e.clients.len() >= 10 {
                    continue;
                }
                let l = vcore::pick(l, n);
                if let Ok(s) = std::net::TcpStream::connect(e.addrs[l]) {
                    let _ = socket2::SockRef::from(&s).set_linger(Some(Duration::ZERO));
                    let id = e.clients.len();
                    w.idents.borrow_mut().push((format!("{}->{}", s.local_addr().map(|a| a.to_string()).unwrap_or_default(), e.addrs[l]), id));
                    w.conns.borrow_mut().push(ConnSlot { done: false, waker: None, called: 0, finished_at: None, dropped_unfinished: false, fut_dropped: false });
                    e.clients.push(s);
                    e.backlog[l].push_back(id);
                    // the yield-point callback runs on this thread inside stepped.step(); it only
                    // touches the engine (the stepped driver is a separate object)
                    let ep: *mut Engine = &mut e;
                    let fired = Rc::new(Cell::new(false));
                    let f2 = fired.clone();
                    hv::set_yield_callback(Some(Box::new(move |_p| {
                        if f2.replace(true) {
                            return;
                        }
                        // SAFETY: single thread, synchronous call from within `stepped.step()`;
                        // `e` outlives the callback, which is removed right after the steps below
                        let e: &mut Engine = unsafe { &mut *ep };
                        // absorb the dispatch log entry of the connection that has just been sent
                        for d in hv::take_dispatch_log() {
                            if let Some(id) = e.backlog[d.token].pop_front() {
                                if d.worker == Some(0) {
                                    e.dispatched.push_back((id, d.token));
                                    e.all_dispatched.push((id, d.token));
                                }
                            }
                        }
                        if e.woken() {
                            e.poll_worker(); // the worker receives the connection and calls the service
                        }
                        e.label("stop-raced-with-uncounted-connection");
                        e.issue_stop(graceful);
                    })));
                    e.accept_quiesce(&mut stepped);
                    hv::set_yield_callback(None);
                    yield_some().await;
                    e.resolve_stops();
                }
            }
        }
    }

    // ---- final drain ---------------------------------------------------------------------------
    let restarting_at_stop = e.stops.first().map(|_| w.hold.borrow().iter().any(|h| *h) && !w.hold_wakers.borrow().iter().all(|v| v.is_empty())).unwrap_or(false);
    if restarting_at_stop {
        e.label("stop-while-service-restarts");
    }
    if e.stops.is_empty() {
        // factories held back by the script are let go
        for s in 0..n {
            w.hold.borrow_mut()[s] = false;
            let ws: Vec<Waker> = w.hold_wakers.borrow_mut()[s].drain(..).collect();
            for wk in ws {
                wk.wake();
            }
        }
        // C07 (iii): everything ready -> every dispatched connection is called exactly once
        w.after_call.borrow_mut().iter_mut().for_each(|a| *a = 0);
        for s in 0..n {
            w.state.borrow_mut()[s] = SvcState::Ready;
            let ws: Vec<Waker> = w.ready_wakers.borrow_mut()[s].drain(..).collect();
            for wk in ws {
                wk.wake();
            }
        }
        w.fail_next.borrow_mut().iter_mut().for_each(|f| *f = false);
        // a second pass after a few milliseconds of real time if clients still wait: under load the
        // last ACK of a loopback handshake can reach the listener a moment after connect() returned
        for pass in 0..3 {
            if pass > 0 {
                if e.backlog.iter().all(|b| b.is_empty()) {
                    break;
                }
                std::thread::sleep(Duration::from_millis(if pass == 1 { 5 } else { 50 }));
            }
        for _ in 0..200 {
            let live = e.in_progress_now();
            for id in live {
                let wk = {
                    let mut cs = w.conns.borrow_mut();
                    cs[id].done = true;
                    cs[id].waker.take()
                };
                if let Some(wk) = wk {
                    wk.wake();
                }
            }
            yield_some().await;
            e.accept_quiesce(&mut stepped);
            if e.woken() {
                e.poll_worker();
                yield_some().await;
            } else if e.in_progress_now().is_empty() {
                break;
            }
        }
        }
        if e.worker.is_some() {
            let missing: Vec<(usize, usize)> = e.dispatched.iter().copied().collect();
            if !missing.is_empty() {
                let msg = format!("every service is ready and the worker has nothing left to do, yet dispatched connections {:?} (id, listener) were never handed to a service", missing);
                e.flagv(Prop::C07, "C07/connection-not-served", msg.clone());
                e.flagv(Prop::C01, "C01/worker-lost-connection", msg);
            }
            let waiting: usize = e.backlog.iter().map(|b| b.len()).sum();
            if waiting > 0 {
                e.flagv(Prop::C07, "C07/connection-not-served", format!("{} client(s) still wait in the listener backlog although the worker is idle and below its limit {}", waiting, e.limit));
            }
        }
        for (id, cslot) in w.conns.borrow().iter().enumerate() {
            if cslot.called > 1 {
                e.found.push((Prop::C01, "C01/called-twice", format!("connection {} was handed to a service {} times", id, cslot.called)));
            }
        }
    } else {
        // C06: drive the clock until the worker has completed
        let t_last = e.stops.last().map(|s| s.t0).unwrap_or(0);
        let graceful_last = e.stops.last().map(|s| s.graceful).unwrap_or(false);
        let mut finish_all_at: Option<u64> = None;
        for step in 0..(c.shutdown_timeout_s as u64 + 4) * 10 {
            if e.worker.is_none() {
                break;
            }
            tokio::time::advance(Duration::from_millis(100)).await;
            w.now_ms.set(w.now_ms.get() + 100);
            yield_some().await;
            if e.woken() {
                e.poll_worker();
                yield_some().await;
            }
            e.resolve_stops();
            let _ = (step, &mut finish_all_at);
        }
        e.resolve_stops();
        if e.worker.is_some() {
            e.flagv(Prop::C06, "C06/stop-never-completes", format!("{} worker stop issued at {} ms has not completed {} ms later (shutdown_timeout {} ms)", if graceful_last { "graceful" } else { "forced" }, t_last, w.now_ms.get() - t_last, e.timeout_ms));
        } else if let Some(tc) = e.completed_at {
            // liveness bound for a graceful stop: condition time rounded up to the tick, plus one tick
            if graceful_last {
                let s = e.stops.last().unwrap();
                let cond = s
                    .in_progress
                    .iter()
                    .map(|id| w.conns.borrow()[*id].finished_at.unwrap_or(u64::MAX))
                    .max()
                    .unwrap_or(s.t0)
                    .min(s.t0 + e.timeout_ms);
                // one tick of slack for tick alignment plus the 100 ms polling granularity of this drain and timer rounding
                let deadline = s.t0 + (((cond.saturating_sub(s.t0)) + 999) / 1000 + 1) * 1000 + 110;
                let t0s = s.t0;
                if tc > deadline {
                    e.flagv(Prop::C06, "C06/graceful-late", format!("graceful stop issued at {} completed at {} ms; its condition (connections finished or timeout) held from {} ms, bound {} ms", t0s, tc, cond, deadline));
                    // connections that reached the worker while it was shutting down are to be
                    // released, not kept: if some were never handed to a service and the shutdown
                    // was held up beyond its condition, they were kept
                    let kept: Vec<usize> = e.all_dispatched.iter().map(|(id, _)| *id).filter(|id| w.conns.borrow()[*id].called == 0).collect();
                    if !kept.is_empty() {
                        e.found.push((Prop::C01, "C01/queued-not-released", format!("connections {:?} were queued at the worker when it shut down (or arrived while it did) and were neither served nor released: the graceful stop issued at {} ms, whose connections in progress had finished at {} ms, completed only at {} ms (shutdown_timeout {} ms)", kept, t0s, cond, tc, e.timeout_ms)));
                    }
                }
            }
        }
        for (i, s) in e.stops.iter().enumerate() {
            if s.outcome.is_none() {
                e.found.push((Prop::C06, "C06/stop-unresolved", format!("the completion channel of stop #{} never resolved", i)));
            }
        }
        // connections queued at the worker when it shut down are released, not served
        if let Some(tc) = e.completed_at {
            let _ = tc;
            let called_after: Vec<usize> = vec![];
            let _ = called_after;
        }
    }
    e.check_log();

    let mut obs = Obs::new();
    let mine: Vec<&(Prop, &'static str, String)> = e.found.iter().filter(|f| f.0 == prop).collect();
    if let Some(f) = mine.first() {
        return Err(Fail::new(f.1, format!("{} [services {}, limit {}, shutdown_timeout {} s]", f.2, n, c.limit, c.shutdown_timeout_s)));
    }
    for l in e.labels.clone() {
        obs.label(l);
    }
    obs.label_if(queued_while_unready, "queued-while-unready");
    obs.label_if(n >= 2, "services>=2");
    obs.label_if(e.calls_seen >= 2, "calls>=2");
    obs.nontrivial = match prop {
        Prop::C07 => queued_while_unready || e.labels.contains(&"restart"),
        Prop::C06 => e.labels.contains(&"stop-with-connections-in-progress"),
        Prop::C01 => e.calls_seen >= 2 && n >= 2,
        Prop::C02 | Prop::C04 => e.labels.contains(&"dispatch-reaches-limit"),
    };
    // release everything that is still parked
    for cs in w.conns.borrow_mut().iter_mut() {
        cs.done = true;
        if let Some(wk) = cs.waker.take() {
            wk.wake();
        }
    }
    drop(e);
    yield_some().await;
    Ok(obs)
}
