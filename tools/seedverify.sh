#!/bin/bash
# tools/seedverify.sh <dir-with-patch.diff,meta.json,demo> : confirms in the scratch worktree
# /tmp/wt_verify that (1) the workspace suite passes with the change, (2) the demo fails with it,
# (3) the demo passes without it.
DIR=$1
WT=/tmp/wt_verify
[ -d $WT ] || git -C /repo worktree add --detach $WT HEAD >/dev/null 2>&1
cd $WT && git checkout -q --detach $(git -C /repo rev-parse HEAD) && git checkout -- . && git clean -fdq
export CARGO_NET_OFFLINE=true
DEST=$(python3 -c "import json,re;print(re.sub(r'^/tmp/wt[0-9]?_C[0-9]+/','',json.load(open('$DIR/meta.json'))['demo_dest']))")
DEMO=$(python3 -c "import json;print(json.load(open('$DIR/meta.json'))['demo_file'])")
CMD=$(python3 -c "import json,re;print(re.sub(r'/tmp/wt[0-9]?_C[0-9]+','$WT',json.load(open('$DIR/meta.json'))['demo_cmd']))")
git apply "$DIR/patch.diff" || { echo "VERIFY-FAIL patch does not apply"; exit 1; }
cargo test --workspace --no-fail-fast --offline >/tmp/seedverify.log 2>&1; RC1=$?
mkdir -p "$(dirname "$DEST")"; cp "$DIR/$DEMO" "$DEST"
bash -c "$CMD" >/tmp/seedverify_demo1.log 2>&1; RC2=$?
git apply -R "$DIR/patch.diff"
bash -c "$CMD" >/tmp/seedverify_demo2.log 2>&1; RC3=$?
git checkout -- . && git clean -fdq
echo "suite-with-change rc=$RC1 (want 0); demo-with-change rc=$RC2 (want !=0); demo-without rc=$RC3 (want 0)"
if [ $RC1 -eq 0 ] && [ $RC2 -ne 0 ] && [ $RC3 -eq 0 ]; then echo "VERIFY-OK $DIR"; else echo "VERIFY-FAIL $DIR"; grep -E "FAILED|failed|error" /tmp/seedverify.log | head; fi
