//! C09 / C10 — actix-rt System and Arbiter under real threads (L4).  The generator owns the
//! configuration, the operation script and jitter; the OS owns the interleaving.  Oracles accept
//! every outcome the property allows; order is asserted only where the harness established
//! happens-before (hand-over through channels).

use std::{
    sync::{
        atomic::{AtomicBool, AtomicUsize, Ordering},
        mpsc, Arc, Mutex,
    },
    thread::{self, ThreadId},
    time::{Duration, Instant},
};

use actix_rt::{Arbiter, System};
use serde::{Deserialize, Serialize};
use vcore::{CaseResult, Fail, Obs};

const WATCHDOG: Duration = Duration::from_secs(10);

fn jitter(us: u16) {
    if us == 0 {
        return;
    }
    if us % 2 == 0 {
        let t = Instant::now();
        while t.elapsed() < Duration::from_micros(us as u64) {
            std::hint::spin_loop();
        }
    } else {
        thread::sleep(Duration::from_micros(us as u64));
    }
}

struct DropFlag(Arc<AtomicBool>);
impl Drop for DropFlag {
    fn drop(&mut self) {
        self.0.store(true, Ordering::SeqCst);
    }
}

/// set (after a delay) when the task that owns it has been torn down
struct SlowDropFlag(Arc<AtomicBool>);
impl Drop for SlowDropFlag {
    fn drop(&mut self) {
        thread::sleep(Duration::from_millis(120));
        self.0.store(true, Ordering::SeqCst);
    }
}

fn wait_flag(f: &AtomicBool, d: Duration) -> bool {
    let t = Instant::now();
    while t.elapsed() < d {
        if f.load(Ordering::SeqCst) {
            return true;
        }
        thread::sleep(Duration::from_millis(1));
    }
    f.load(Ordering::SeqCst)
}

/// join with a watchdog
fn join_timeout(a: Arbiter, d: Duration) -> Result<(), ()> {
    let (tx, rx) = mpsc::channel();
    thread::spawn(move || {
        let _ = a.join();
        let _ = tx.send(());
    });
    rx.recv_timeout(d).map_err(|_| ())
}

/// the System under test, created through one of its constructors: 0 = `System::new()`,
/// 1 = `System::with_tokio_rt` with a current-thread runtime, 2 = with a multi-thread runtime
fn make_system(how: u8) -> actix_rt::SystemRunner {
    match how % 3 {
        0 => System::new(),
        1 => System::with_tokio_rt(|| tokio::runtime::Builder::new_current_thread().enable_all().build().unwrap()),
        _ => System::with_tokio_rt(|| tokio::runtime::Builder::new_multi_thread().worker_threads(2).enable_all().build().unwrap()),
    }
}

// ================================================================================================
// C09
// ================================================================================================

#[derive(Clone, Copy, Debug, Serialize, Deserialize, PartialEq)]
pub enum Fate {
    /// stopped and joined before the system stop
    StoppedJoined,
    /// `Arbiter` value dropped, thread keeps running detached
    Detached,
    Idle,
    /// runs a task that yields forever
    BusyYield,
    /// runs a function that blocks the thread for some ms around the stop
    BusyBlock { ms: u8 },
    /// stopped early with a task queued behind the stop whose destructor is slow: the arbiter is
    /// dead (channel closed) but not yet deregistered while the destructor runs
    StoppedSlowTeardown { ms: u8 },
    /// blocks its thread for a while with 33..160 further commands queued behind the blocking one:
    /// the system's Stop command arrives at the end of a long queue
    BusyBacklog { ms: u8, n: u8 },
    /// created through `Arbiter::with_tokio_rt` with a runtime factory of its own; `slow`: the
    /// factory takes 1.1 s (the arbiter must be registered before the constructor returns all the same)
    CustomRt { slow: bool },
}

#[derive(Clone, Copy, Debug, Serialize, Deserialize, PartialEq)]
pub enum StopFrom {
    SystemBeforeRun,
    SystemTask,
    ArbiterTask { i: u8 },
    Foreign,
    /// issued inside `SystemRunner::block_on` (what `#[actix_rt::main]` does), which then keeps the
    /// loop turning: the arbiters stop although `run` has not been called yet
    InsideBlockOn,
}

#[derive(Clone, Copy, Debug, Serialize, Deserialize, PartialEq)]
pub enum Second {
    /// issued by the same thread right after the first: first must win
    Sequenced { code: i32 },
    /// issued by another thread at about the same time: either may win
    Racing { code: i32 },
}

#[derive(Clone, Debug, Serialize, Deserialize, PartialEq)]
pub struct C09Case {
    pub arbiters: Vec<Fate>,
    pub from: StopFrom,
    pub code: i32,
    pub second: Option<Second>,
    /// use `run()` instead of `run_with_code()`
    pub plain_run: bool,
    pub jitter: [u16; 3],
    /// with a sequenced second stop issued from a thread of the system: an arbiter is created
    /// between the two stop calls (it exists before the second stop is issued)
    #[serde(default)]
    pub arbiter_between: bool,
    /// constructor of the System (see `make_system`)
    #[serde(default)]
    pub sys_rt: u8,
    /// another System has been created, run and stopped on this OS thread before
    #[serde(default)]
    pub prior_system: bool,
    /// this many more (idle) arbiters are created after the early fates have been carried out,
    /// i.e. after arbiters that were stopped early have been joined (their threads are gone)
    #[serde(default)]
    pub late: u8,
    /// arbiters after the first idle one are created by `Arbiter::new()` called from a task that
    /// runs on that arbiter's thread (and handed back), not from the system thread
    #[serde(default)]
    pub via_arbiter: bool,
}

/// an earlier System on this very thread, run to completion
fn run_prior_system() -> Result<(), Fail> {
    let first = System::new();
    let ran = Arc::new(AtomicBool::new(false));
    let r2 = ran.clone();
    first.block_on(async move {
        let _ = Arbiter::current().spawn_fn(move || r2.store(true, Ordering::SeqCst));
        tokio::task::yield_now().await;
        tokio::task::yield_now().await;
    });
    System::current().stop();
    let _ = first.run();
    if !ran.load(Ordering::SeqCst) {
        return Err(Fail::new("harness/setup", "the prior system did not run its task"));
    }
    Ok(())
}

struct SlowDrop(u8);
impl Drop for SlowDrop {
    fn drop(&mut self) {
        thread::sleep(Duration::from_millis(self.0 as u64));
    }
}

pub fn check_c09(c: &C09Case) -> CaseResult {
    let c2 = c.clone();
    let (tx, rx) = mpsc::channel();
    thread::Builder::new()
        .name("c09-system".into())
        .spawn(move || {
            let r = std::panic::catch_unwind(std::panic::AssertUnwindSafe(|| run_c09(&c2)));
            let _ = tx.send(match r {
                Ok(r) => r,
                Err(p) => Err(Fail::new("C09/panic", format!("panic in the system thread: {}", vcore::panic_message(&*p)))),
            });
        })
        .map_err(|e| Fail::new("harness/setup", format!("cannot spawn: {e}")))?;
    match rx.recv_timeout(WATCHDOG * 3) {
        Ok(r) => r,
        Err(_) => Err(Fail::new("C09/run-never-returns", format!("run_with_code did not return within {:?} after a stop was issued", WATCHDOG * 3))),
    }
}

fn run_c09(c: &C09Case) -> CaseResult {
    if c.prior_system {
        run_prior_system()?;
    }
    let runner = make_system(c.sys_rt);
    let sys = System::current();
    let sys_id = sys.id();
    let mut obs = Obs::new();
    // build arbiters
    struct Slot {
        arb: Option<Arbiter>,
        parked_dropped: Arc<AtomicBool>,
        fate: Fate,
    }
    let mut slots = vec![];
    let wrong_system = Arc::new(AtomicBool::new(false));
    let mut created_via_arbiter = false;
    for fate in &c.arbiters {
        let creator = if c.via_arbiter {
            slots.iter().find(|s: &&Slot| matches!(s.fate, Fate::Idle | Fate::Detached | Fate::StoppedJoined | Fate::StoppedSlowTeardown { .. })).and_then(|s| s.arb.as_ref()).map(|a| a.handle())
        } else {
            None
        };
        let arb = match *fate {
            Fate::CustomRt { slow } => Arbiter::with_tokio_rt(move || {
                if slow {
                    thread::sleep(Duration::from_millis(1100));
                }
                tokio::runtime::Builder::new_current_thread().enable_all().build().unwrap()
            }),
            _ => match creator {
                Some(h) => {
                    let (tx, rx) = mpsc::channel();
                    let _ = h.spawn_fn(move || {
                        let _ = tx.send(Arbiter::new());
                    });
                    match rx.recv_timeout(WATCHDOG) {
                        Ok(a) => {
                            created_via_arbiter = true;
                            a
                        }
                        Err(_) => return Err(Fail::new("C09/create-from-arbiter", "Arbiter::new() called from a task on an idle arbiter's thread did not return an arbiter")),
                    }
                }
                None => Arbiter::new(),
            },
        };
        let flag = Arc::new(AtomicBool::new(false));
        let f2 = flag.clone();
        let ws = wrong_system.clone();
        // a task parked on the arbiter: its drop tells us the event loop has ended
        let g = DropFlag(f2); // captured: dropped with the future even if it is never polled
        arb.spawn(async move {
            let _g = g;
            if System::current().id() != sys_id {
                ws.store(true, Ordering::SeqCst);
            }
            std::future::pending::<()>().await;
        });
        match *fate {
            Fate::BusyYield => {
                arb.spawn(async {
                    loop {
                        tokio::task::yield_now().await;
                    }
                });
            }
            Fate::BusyBlock { ms } => {
                arb.spawn_fn(move || thread::sleep(Duration::from_millis(ms as u64 % 20)));
            }
            _ => {}
        }
        slots.push(Slot { arb: Some(arb), parked_dropped: flag, fate: *fate });
    }
    jitter(c.jitter[0]);
    // early fates
    for s in slots.iter_mut() {
        match s.fate {
            Fate::StoppedJoined => {
                let a = s.arb.take().unwrap();
                a.stop();
                if join_timeout(a, WATCHDOG).is_err() {
                    return Err(Fail::new("C09/early-join-hangs", "an arbiter stopped before the system stop could not be joined"));
                }
            }
            Fate::Detached => {
                drop(s.arb.take());
            }
            Fate::StoppedSlowTeardown { ms } => {
                let a = s.arb.as_ref().unwrap();
                a.stop();
                let _ = a.spawn(async move {
                    let _slow = SlowDrop(5 + ms % 40);
                    std::future::pending::<()>().await;
                });
            }
            _ => {}
        }
    }
    // arbiters created once earlier ones are gone
    for _ in 0..c.late % 3 {
        let arb = Arbiter::new();
        let flag = Arc::new(AtomicBool::new(false));
        let g = DropFlag(flag.clone());
        let ws = wrong_system.clone();
        arb.spawn(async move {
            let _g = g;
            if System::current().id() != sys_id {
                ws.store(true, Ordering::SeqCst);
            }
            std::future::pending::<()>().await;
        });
        slots.push(Slot { arb: Some(arb), parked_dropped: flag, fate: Fate::Idle });
    }
    // a long queue of commands behind a blocking one, in place when the stop is issued
    let backlog_ran = Arc::new(AtomicUsize::new(0));
    let mut backlog_sent = 0usize;
    for s in slots.iter() {
        if let (Fate::BusyBacklog { ms, n }, Some(a)) = (s.fate, s.arb.as_ref()) {
            a.spawn_fn(move || thread::sleep(Duration::from_millis(15 + ms as u64 % 30)));
            // usually 33..160 commands, one time in sixteen 1500 (beyond any bounded queue)
            for _ in 0..(if n % 16 == 7 { 1500 } else { 33 + n as usize % 128 }) {
                let r = backlog_ran.clone();
                if a.spawn_fn(move || {
                    r.fetch_add(1, Ordering::SeqCst);
                }) {
                    backlog_sent += 1;
                }
            }
        }
    }
    let _ = backlog_sent;
    let live_at_stop = slots.iter().filter(|s| !matches!(s.fate, Fate::StoppedJoined)).count();
    // issue the stop(s)
    let (code, second) = (c.code, c.second);
    let between: Arc<Mutex<Vec<Arbiter>>> = Arc::new(Mutex::new(vec![]));
    // only where both stops and the registration in between are queued before the system's
    // controller task can run (issued from the system thread): from another thread the first stop
    // may already have ended `run`, after which nobody processes the second one
    let want_between = c.arbiter_between && matches!(second, Some(Second::Sequenced { .. })) && matches!(c.from, StopFrom::SystemBeforeRun | StopFrom::SystemTask);
    let issue = {
        let j1 = c.jitter[1];
        let between = between.clone();
        move |sys: System| {
            sys.stop_with_code(code);
            if let Some(Second::Sequenced { code: c2 }) = second {
                jitter(j1 % 64);
                if want_between && System::try_current().is_some() {
                    between.lock().unwrap().push(Arbiter::new());
                }
                sys.stop_with_code(c2);
            }
        }
    };
    let mut helpers = vec![];
    if let Some(Second::Racing { code: c2 }) = second {
        let s2 = sys.clone();
        let j = c.jitter[2];
        helpers.push(thread::spawn(move || {
            jitter(j);
            s2.stop_with_code(c2);
        }));
    }
    let from = match c.from {
        StopFrom::ArbiterTask { i } if slots.iter().any(|s| s.arb.is_some() && !matches!(s.fate, Fate::StoppedSlowTeardown { .. })) => {
            let live: Vec<usize> = slots.iter().enumerate().filter(|(_, s)| s.arb.is_some() && !matches!(s.fate, Fate::StoppedSlowTeardown { .. })).map(|(k, _)| k).collect();
            StopFrom::ArbiterTask { i: live[i as usize % live.len()] as u8 }
        }
        StopFrom::ArbiterTask { .. } => StopFrom::Foreign,
        f => f,
    };
    match from {
        StopFrom::SystemBeforeRun => issue(sys.clone()),
        StopFrom::SystemTask => {
            let j = c.jitter[1];
            runner.runtime().spawn(async move {
                jitter(j);
                issue(System::current());
            });
        }
        StopFrom::ArbiterTask { i } => {
            let j = c.jitter[1];
            slots[i as usize].arb.as_ref().unwrap().spawn(async move {
                jitter(j);
                issue(System::current());
            });
        }
        StopFrom::Foreign => {
            let s2 = sys.clone();
            let j = c.jitter[1];
            helpers.push(thread::spawn(move || {
                jitter(j);
                issue(s2);
            }));
        }
        StopFrom::InsideBlockOn => {
            let flags: Vec<Arc<AtomicBool>> = slots.iter().filter(|s| s.arb.is_some() || matches!(s.fate, Fate::Detached)).map(|s| s.parked_dropped.clone()).collect();
            let all = runner.block_on(async move {
                issue(System::current());
                let t0 = Instant::now();
                while !flags.iter().all(|f| f.load(Ordering::SeqCst)) && t0.elapsed() < WATCHDOG {
                    tokio::time::sleep(Duration::from_millis(2)).await;
                }
                flags.iter().all(|f| f.load(Ordering::SeqCst))
            });
            if !all {
                return Err(Fail::new("C09/arbiter-not-stopped", format!("stop_with_code was issued inside SystemRunner::block_on, which kept the event loop turning for {:?}: some arbiter was still running (the stop is acted on by the system's controller task, not by `run`)", WATCHDOG)));
            }
        }
    }
    // run
    let allowed: Vec<i32> = match second {
        None | Some(Second::Sequenced { .. }) => vec![code],
        Some(Second::Racing { code: c2 }) => vec![code, c2],
    };
    if c.plain_run {
        match runner.run() {
            Ok(()) => {
                if !allowed.contains(&0) {
                    return Err(Fail::new("C09/exit-code", format!("run() returned Ok although the stop code(s) {:?} are non-zero", allowed)));
                }
            }
            Err(e) => {
                let msg = e.to_string();
                if !allowed.iter().any(|a| *a != 0 && msg.contains(&a.to_string())) {
                    return Err(Fail::new("C09/exit-code", format!("run() returned Err({msg:?}) but the stop code(s) are {:?}", allowed)));
                }
            }
        }
    } else {
        match runner.run_with_code() {
            Ok(got) => {
                if !allowed.contains(&got) {
                    return Err(Fail::new("C09/exit-code", format!("run_with_code returned {} but the first stop carried {} (allowed {:?}, second {:?})", got, code, allowed, second)));
                }
            }
            Err(e) => return Err(Fail::new("C09/exit-code", format!("run_with_code failed: {e}"))),
        }
    }
    for h in helpers {
        let _ = h.join();
    }
    // every arbiter created before the stop and not yet joined ends its loop
    for (k, s) in slots.into_iter().enumerate() {
        match s.arb {
            Some(a) => {
                if join_timeout(a, WATCHDOG).is_err() {
                    return Err(Fail::new("C09/arbiter-not-stopped", format!("arbiter {} ({:?}) was alive when the system stopped but its join() did not return within {:?}", k, s.fate, WATCHDOG)));
                }
                if !s.parked_dropped.load(Ordering::SeqCst) {
                    return Err(Fail::new("C09/arbiter-not-stopped", format!("arbiter {} joined but its parked task was not dropped", k)));
                }
            }
            None => {
                if matches!(s.fate, Fate::Detached) && !wait_flag(&s.parked_dropped, WATCHDOG) {
                    return Err(Fail::new("C09/arbiter-not-stopped", format!("detached arbiter {} kept running {:?} after the system stop", k, WATCHDOG)));
                }
            }
        }
    }
    let extra: Vec<Arbiter> = between.lock().unwrap().drain(..).collect();
    let had_between = !extra.is_empty();
    for a in extra {
        if join_timeout(a, WATCHDOG).is_err() {
            return Err(Fail::new("C09/arbiter-not-stopped", format!("an arbiter created between the first and the second stop_with_code call existed when the second stop was issued, but its join() did not return within {:?}", WATCHDOG)));
        }
    }
    if wrong_system.load(Ordering::SeqCst) {
        return Err(Fail::new("C09/wrong-system", "System::current() on an arbiter thread is not the creating system"));
    }
    obs.nontrivial = (live_at_stop >= 1 && !matches!(c.from, StopFrom::SystemBeforeRun)) || c.second.is_some();
    obs.label_if(live_at_stop >= 1, "arbiter-alive-at-stop");
    obs.label_if(c.second.is_some(), "two-stops");
    obs.label_if(matches!(c.second, Some(Second::Sequenced { .. })), "sequenced-second-stop");
    obs.label_if(c.arbiters.iter().any(|f| matches!(f, Fate::StoppedSlowTeardown { .. })), "dead-but-registered-arbiter");
    obs.label_if(matches!(from, StopFrom::ArbiterTask { .. }), "stop-from-arbiter");
    obs.label_if(matches!(from, StopFrom::Foreign), "stop-from-foreign-thread");
    obs.label_if(matches!(from, StopFrom::InsideBlockOn), "stop-inside-block_on");
    obs.label_if(created_via_arbiter, "arbiter-created-from-an-arbiter-thread");
    obs.label_if(c.late % 3 > 0 && c.arbiters.iter().any(|f| matches!(f, Fate::StoppedJoined)), "arbiter-created-after-an-early-one-had-gone");
    obs.label_if(c.code != 0, "nonzero-code");
    obs.label_if(c.arbiters.iter().any(|f| matches!(f, Fate::BusyBacklog { .. })), "stop-behind-long-queue");
    obs.label_if(had_between, "arbiter-created-between-two-stops");
    obs.label_if(c.sys_rt % 3 != 0, "system-with_tokio_rt");
    obs.label_if(c.sys_rt % 3 == 2, "multi-thread-system-runtime");
    obs.label_if(c.prior_system, "second-system-on-this-thread");
    obs.label_if(c.arbiters.iter().any(|f| matches!(f, Fate::CustomRt { .. })), "with_tokio_rt");
    obs.label_if(c.arbiters.iter().any(|f| matches!(f, Fate::CustomRt { slow: true })), "slow-runtime-factory");
    Ok(obs)
}

/// Child mode `vcheck __child-c09 <case json>`: one C09 case in a process of its own, where the
/// System and Arbiter id counters start from zero (ids that coincide only there).
pub fn child_c09_main(args: &[String]) -> ! {
    let case: C09Case = match args.first().and_then(|a| serde_json::from_str(a).ok()) {
        Some(c) => c,
        None => {
            println!("BAD-ARGS");
            std::process::exit(3);
        }
    };
    match check_c09(&case) {
        Ok(_) => {
            println!("OK");
            std::process::exit(0);
        }
        Err(f) => {
            println!("FAIL {} {}", f.sig, f.msg.replace('\n', " "));
            std::process::exit(1);
        }
    }
}

/// Run a case in a fresh process (see `child_c09_main`).
pub fn check_c09_fresh_process(c: &C09Case) -> CaseResult {
    let exe = std::env::current_exe().map_err(|e| Fail::new("harness/setup", format!("{e}")))?;
    let arg = serde_json::to_string(c).map_err(|e| Fail::new("harness/setup", format!("{e}")))?;
    let out = std::process::Command::new(exe)
        .arg("__child-c09")
        .arg(arg)
        .stdin(std::process::Stdio::null())
        .stderr(std::process::Stdio::null())
        .output()
        .map_err(|e| Fail::new("harness/setup", format!("cannot start child: {e}")))?;
    let text = String::from_utf8_lossy(&out.stdout).to_string();
    let line = text.lines().last().unwrap_or("").to_string();
    match out.status.code() {
        Some(0) if line == "OK" => {
            let mut obs = Obs::new();
            obs.nontrivial = c.arbiters.iter().any(|f| matches!(f, Fate::StoppedJoined | Fate::Detached)) && c.arbiters.len() >= 2;
            obs.label_if(c.arbiters.iter().any(|f| matches!(f, Fate::StoppedJoined)), "arbiter-ended-before-the-stop");
            obs.label("fresh-process");
            Ok(obs)
        }
        Some(1) if line.starts_with("FAIL ") => {
            let rest = &line[5..];
            let (sig, msg) = rest.split_once(' ').unwrap_or((rest, ""));
            Err(Fail::new(sig.to_string(), format!("in a fresh process (ids start at 0): {msg}")))
        }
        other => Err(Fail::new("harness/child", format!("child ended with {:?}: {:?}", other, line))),
    }
}

/// the cases of the fresh-process part: 1..3 arbiters that are idle, stopped-and-joined early or
/// detached, stop from the system thread or a foreign thread
pub fn fresh_process_cases() -> Vec<C09Case> {
    let fates = [Fate::Idle, Fate::StoppedJoined, Fate::Detached];
    let mut v = vec![];
    for n in 1..=3usize {
        for code in 0..fates.len().pow(n as u32) {
            let mut arbiters = vec![];
            let mut k = code;
            for _ in 0..n {
                arbiters.push(fates[k % 3]);
                k /= 3;
            }
            for from in [StopFrom::SystemTask, StopFrom::Foreign] {
                v.push(C09Case { arbiters: arbiters.clone(), from, code: if code % 2 == 0 { 0 } else { 7 }, second: None, plain_run: false, jitter: [0, 0, 0], arbiter_between: false, sys_rt: 0, prior_system: false, late: 0, via_arbiter: false });
            }
            // an arbiter created after an early one has gone (ids, registry keys and thread names
            // of a fresh process are small and predictable)
            if arbiters.contains(&Fate::StoppedJoined) {
                v.push(C09Case { arbiters: arbiters.clone(), from: StopFrom::SystemTask, code: 7, second: None, plain_run: false, jitter: [0, 0, 0], arbiter_between: false, sys_rt: 0, prior_system: false, late: 1 + (code % 2) as u8, via_arbiter: code % 2 == 1 });
            }
        }
    }
    v
}

// ================================================================================================
// C10
// ================================================================================================

#[derive(Clone, Copy, Debug, Serialize, Deserialize, PartialEq)]
pub enum Kind {
    Complete,
    Yield { n: u8 },
    PendForever,
    Panic,
    /// calls Arbiter::current().spawn_fn from inside and checks System::current()
    Nested,
    /// signals that it runs, blocks the arbiter thread until released (after the next `hold`
    /// sends), then sends a nested command: it must start after the commands sent meanwhile
    Gated { hold: u8 },
    /// calls Arbiter::current().stop() and then spawn_fn from the arbiter's own thread
    SelfStopThenSpawn,
    /// sends a function to `System::current().arbiter()` (the system's own arbiter) from inside
    /// the task: it must run on the system's thread, not on this arbiter's
    ViaSystemArbiter,
    /// like `Nested`, but the task first creates another arbiter with `Arbiter::new()`: the
    /// creating thread's `Arbiter::current()` must still be the arbiter the task runs on
    NestedAfterNew,
}

#[derive(Clone, Copy, Debug, Serialize, Deserialize, PartialEq)]
pub enum COp {
    Spawn { k: Kind },
    SpawnFn,
    /// marker task + wait: afterwards every earlier command must have started
    Sync,
    Stop,
    /// n plain functions sent back to back (after a stop: none may start)
    Burst { n: u8 },
}

#[derive(Clone, Debug, Serialize, Deserialize, PartialEq)]
pub struct C10Case {
    /// ops with the sender that issues them (0 = owner handle on the harness thread, 1..: cloned
    /// handles on other threads, executed with hand-over so that sends are totally ordered)
    pub ops: Vec<(u8, COp)>,
    pub senders: u8,
    /// use the system's own arbiter handle instead of a thread arbiter
    pub system_arbiter: bool,
    pub jitter: [u16; 2],
    /// another System has been created, run and stopped on this OS thread before
    #[serde(default)]
    pub prior_system: bool,
    /// the thread arbiter is created through `Arbiter::with_tokio_rt`
    #[serde(default)]
    pub custom_rt: bool,
    /// ... with a multi-thread runtime (commands must still run on the arbiter's own thread)
    #[serde(default)]
    pub custom_rt_multi: bool,
    /// join() is called only after the arbiter's loop has been seen to have ended (spawn reports false)
    #[serde(default)]
    pub join_late: bool,
    /// the sender threads belong to another System (each creates one of its own before sending)
    #[serde(default)]
    pub foreign_senders: bool,
    /// constructor of the System (see `make_system`)
    #[serde(default)]
    pub sys_rt: u8,
}

#[derive(Clone, Debug)]
struct Start {
    id: usize,
    thread: ThreadId,
    system: usize,
}

/// ids of commands sent from inside tasks without hand-over: not part of the FIFO check
const NESTED: usize = 1_000_000;

struct Shared {
    next_id: AtomicUsize,
    next_nested: AtomicUsize,
    starts: Mutex<Vec<Start>>,
    /// ids whose send happened after stop() had returned
    after_stop: Mutex<Vec<usize>>,
    wrong: Mutex<Vec<String>>,
    /// set before any stop() of the arbiter under test is called
    stop_sent: AtomicBool,
    /// threads on which functions sent to `System::current().arbiter()` from a task ran
    via_system: Mutex<Vec<ThreadId>>,
}

impl Shared {
    fn start(&self, id: usize) {
        self.starts.lock().unwrap().push(Start { id, thread: thread::current().id(), system: System::try_current().map(|s| s.id()).unwrap_or(usize::MAX) });
    }
}

pub fn check_c10(c: &C10Case) -> CaseResult {
    let c2 = c.clone();
    let (tx, rx) = mpsc::channel();
    thread::Builder::new()
        .name("c10-system".into())
        .spawn(move || {
            let r = std::panic::catch_unwind(std::panic::AssertUnwindSafe(|| run_c10(&c2)));
            let _ = tx.send(match r {
                Ok(r) => r,
                Err(p) => Err(Fail::new("C10/panic", format!("panic in the harness/system thread: {}", vcore::panic_message(&*p)))),
            });
        })
        .map_err(|e| Fail::new("harness/setup", format!("cannot spawn: {e}")))?;
    match rx.recv_timeout(WATCHDOG * 4) {
        Ok(r) => r,
        Err(_) => Err(Fail::new("C10/hang", "the case did not finish within the watchdog (join() or a sync never returned)")),
    }
}

enum SenderCmd {
    Do(Box<dyn FnOnce() + Send>),
    Quit,
}

fn run_c10(c: &C10Case) -> CaseResult {
    if c.prior_system {
        run_prior_system()?;
    }
    let runner = make_system(c.sys_rt);
    let sys = System::current();
    let sys_id = sys.id();
    let sh = Arc::new(Shared { next_id: AtomicUsize::new(0), next_nested: AtomicUsize::new(NESTED), starts: Mutex::new(vec![]), after_stop: Mutex::new(vec![]), wrong: Mutex::new(vec![]), stop_sent: AtomicBool::new(false), via_system: Mutex::new(vec![]) });
    let arb = if c.system_arbiter {
        None
    } else if c.custom_rt {
        let multi = c.custom_rt_multi;
        Some(Arbiter::with_tokio_rt(move || {
            if multi {
                tokio::runtime::Builder::new_multi_thread().worker_threads(2).enable_all().build().unwrap()
            } else {
                tokio::runtime::Builder::new_current_thread().enable_all().build().unwrap()
            }
        }))
    } else {
        Some(Arbiter::new())
    };
    let handle = match &arb {
        Some(a) => a.handle(),
        None => sys.arbiter().clone(),
    };
    // the arbiter's thread id
    let (ttx, trx) = mpsc::channel();
    handle.spawn_fn(move || {
        let _ = ttx.send(thread::current().id());
    });
    let arb_thread: ThreadId = if c.system_arbiter {
        // the system arbiter only runs inside block_on/run: probe it through block_on
        runner.block_on(async { tokio::task::yield_now().await });
        runner.block_on(async {
            for _ in 0..50 {
                tokio::task::yield_now().await;
            }
        });
        trx.recv_timeout(Duration::from_secs(5)).map_err(|_| Fail::new("harness/setup", "system arbiter probe did not run"))?
    } else {
        trx.recv_timeout(Duration::from_secs(5)).map_err(|_| Fail::new("harness/setup", "arbiter probe did not run"))?
    };
    // sender threads (hand-over keeps the sends totally ordered)
    let nsend = c.senders.clamp(1, 3) as usize;
    let mut sender_tx: Vec<Option<mpsc::Sender<SenderCmd>>> = vec![None];
    let mut sender_threads = vec![];
    for _ in 1..nsend {
        let (stx, srx) = mpsc::channel::<SenderCmd>();
        sender_tx.push(Some(stx));
        let foreign = c.foreign_senders;
        sender_threads.push(thread::spawn(move || {
            // a second System in the process: this thread's current System is not the arbiter's
            let _other = if foreign { Some(System::new()) } else { None };
            while let Ok(SenderCmd::Do(f)) = srx.recv() {
                f();
            }
        }));
    }
    let run_on = |s: usize, f: Box<dyn FnOnce() + Send>| {
        if s == 0 {
            f();
        } else {
            let (atx, arx) = mpsc::channel();
            let _ = sender_tx[s].as_ref().unwrap().send(SenderCmd::Do(Box::new(move || {
                f();
                let _ = atx.send(());
            })));
            let _ = arx.recv_timeout(WATCHDOG);
        }
    };

    let mut sent_order: Vec<usize> = vec![]; // ids of top-level tasks in send order (before any stop)
    let mut stop_returned = false;
    let mut pend_flags: Vec<Arc<AtomicBool>> = vec![];
    // (started, torn down) of tasks that pend forever and take 120 ms to drop
    let mut slow_flags: Vec<(Arc<AtomicBool>, Arc<AtomicBool>)> = vec![];
    // (release channel, sends left until release, ack that the nested command has been sent)
    let mut gates: Vec<(mpsc::Sender<()>, u32, mpsc::Receiver<()>)> = vec![];
    let mut labels: Vec<&'static str> = vec![];
    let mut syncs = 0;
    let mut self_stopped = false;
    let mut sends_total = 0usize;
    let pump = |runner: &actix_rt::SystemRunner| {
        if c.system_arbiter {
            runner.block_on(async {
                for _ in 0..20 {
                    tokio::task::yield_now().await;
                }
            });
        }
    };

    macro_rules! after_send {
        () => {{
            sends_total += 1;
            let mut k = 0;
            while k < gates.len() {
                if gates[k].1 <= 1 {
                    let (g, _, done) = gates.remove(k);
                    let _ = g.send(());
                    // hand-over: the nested command is sent before the harness sends anything else
                    let _ = done.recv_timeout(Duration::from_secs(2));
                } else {
                    gates[k].1 -= 1;
                    k += 1;
                }
            }
        }};
    }

    for (s, op) in &c.ops {
        let s = *s as usize % nsend;
        jitter(c.jitter[0] % 200);
        match *op {
            COp::Spawn { k } => {
                let id = sh.next_id.fetch_add(1, Ordering::SeqCst);
                let (sh2, h2) = (sh.clone(), handle.clone());
                let mut gate_rx = None;
                let mut running_rx = None;
                let mut pend_flag = None;
                // one gate at a time: a second gated task could not start while the first holds the thread
                let k = if matches!(k, Kind::Gated { .. }) && (!gates.is_empty() || stop_returned || self_stopped) { Kind::Complete } else { k };
                if let Kind::Gated { hold } = k {
                    if c.system_arbiter {
                        continue; // blocking the system thread would block the harness itself
                    }
                    let (gtx, grx) = mpsc::channel::<()>();
                    let (dtx, drx) = mpsc::channel::<()>();
                    gates.push((gtx, 1 + (hold % 3) as u32, drx));
                    gate_rx = Some((grx, dtx));
                    labels.push("gated");
                }
                let mut slow_flag = None;
                if matches!(k, Kind::PendForever) {
                    let f = Arc::new(AtomicBool::new(false));
                    pend_flags.push(f.clone());
                    pend_flag = Some(f);
                    if c.join_late && slow_flags.is_empty() {
                        let pair = (Arc::new(AtomicBool::new(false)), Arc::new(AtomicBool::new(false)));
                        slow_flags.push(pair.clone());
                        slow_flag = Some(pair);
                    }
                }
                if matches!(k, Kind::Gated { .. }) {
                    let (rtx, rrx) = mpsc::channel::<()>();
                    running_rx = Some(rrx);
                    let (grx, dtx) = gate_rx.take().unwrap();
                    let fut = async move {
                        sh2.start(id);
                        let _ = rtx.send(());
                        // hold the arbiter thread while the harness queues more commands
                        // released by the harness (hand-over); if that never happens the nested
                        // command is unordered with respect to the harness's sends
                        let released = grx.recv_timeout(Duration::from_secs(8)).is_ok();
                        let nid = if released { sh2.next_id.fetch_add(1, Ordering::SeqCst) } else { sh2.next_nested.fetch_add(1, Ordering::SeqCst) };
                        let sh3 = sh2.clone();
                        Arbiter::current().spawn_fn(move || sh3.start(nid));
                        let _ = dtx.send(());
                    };
                    let ok = {
                        let h3 = h2.clone();
                        let (otx, orx) = mpsc::channel();
                        run_on(s, Box::new(move || {
                            let _ = otx.send(h3.spawn(fut));
                        }));
                        orx.recv_timeout(WATCHDOG).unwrap_or(false)
                    };
                    if stop_returned {
                        sh.after_stop.lock().unwrap().push(id);
                    } else if !self_stopped {
                        sent_order.push(id);
                    }
                    // wait until it runs so that the following sends are queued behind a busy arbiter
                    if ok && !stop_returned && !self_stopped {
                        let _ = running_rx.take().unwrap().recv_timeout(Duration::from_secs(2));
                    } else {
                        gates.pop();
                    }
                    continue;
                }
                let fut = async move {
                    sh2.start(id);
                    let _pf = pend_flag.map(DropFlag);
                    let _sf = slow_flag.map(|(started, dropped)| {
                        started.store(true, Ordering::SeqCst);
                        SlowDropFlag(dropped)
                    });
                    match k {
                        Kind::Complete | Kind::Gated { .. } => {}
                        Kind::Yield { n } => {
                            for _ in 0..n % 4 {
                                tokio::task::yield_now().await;
                            }
                        }
                        Kind::PendForever => std::future::pending::<()>().await,
                        Kind::Panic => panic!("task panics on purpose"),
                        Kind::Nested | Kind::NestedAfterNew => {
                            let other = if matches!(k, Kind::NestedAfterNew) { Some(Arbiter::new()) } else { None };
                            let me = thread::current().id();
                            let sys_here = System::current().id();
                            let sh3 = sh2.clone();
                            let nid = sh2.next_nested.fetch_add(1, Ordering::SeqCst);
                            let sh4 = sh2.clone();
                            let accepted = Arbiter::current().spawn_fn(move || {
                                if thread::current().id() != me {
                                    sh3.wrong.lock().unwrap().push("a command sent through Arbiter::current() ran on another thread".into());
                                }
                                if System::current().id() != sys_here {
                                    sh3.wrong.lock().unwrap().push("System::current() differs inside a nested command".into());
                                }
                                sh3.start(nid);
                            });
                            // read after the call: a stop sent before it is visible here
                            if !accepted && !sh4.stop_sent.load(Ordering::SeqCst) {
                                sh4.wrong.lock().unwrap().push("Arbiter::current().spawn_fn reported false inside a task of an arbiter nobody has stopped: Arbiter::current() does not identify the arbiter the task runs on".into());
                            }
                            if let Some(o) = other {
                                // (whatever was sent to it by mistake runs before its stop)
                                o.stop();
                                let _ = o.join();
                            }
                        }
                        Kind::ViaSystemArbiter => {
                            let sh3 = sh2.clone();
                            let _ = System::current().arbiter().spawn_fn(move || sh3.via_system.lock().unwrap().push(thread::current().id()));
                        }
                        Kind::SelfStopThenSpawn => {
                            let a = Arbiter::current();
                            sh2.stop_sent.store(true, Ordering::SeqCst);
                            a.stop();
                            let nid = sh2.next_nested.fetch_add(1, Ordering::SeqCst);
                            sh2.after_stop.lock().unwrap().push(nid);
                            let sh3 = sh2.clone();
                            a.spawn_fn(move || sh3.start(nid));
                        }
                    }
                };
                run_on(s, Box::new(move || {
                    let _ = h2.spawn(fut);
                }));
                if matches!(k, Kind::SelfStopThenSpawn) && !stop_returned && !self_stopped {
                    self_stopped = true;
                    labels.push("self-stop-then-spawn");
                    sent_order.push(id);
                } else if stop_returned {
                    sh.after_stop.lock().unwrap().push(id);
                } else if !self_stopped {
                    sent_order.push(id);
                }
                // after a self-stop (which runs at an unknown time on the arbiter thread) the
                // harness's own sends are unordered with respect to that stop: no expectation
                if matches!(k, Kind::Panic | Kind::PendForever) {
                    labels.push("panic-or-pend-task");
                }
                after_send!();
            }
            COp::SpawnFn => {
                let id = sh.next_id.fetch_add(1, Ordering::SeqCst);
                let (sh2, h2) = (sh.clone(), handle.clone());
                run_on(s, Box::new(move || {
                    let _ = h2.spawn_fn(move || sh2.start(id));
                }));
                if stop_returned {
                    sh.after_stop.lock().unwrap().push(id);
                } else if !self_stopped {
                    sent_order.push(id);
                }
                after_send!();
            }
            COp::Burst { n } => {
                let n = 100 + (n as usize % 4) * 60;
                let ids: Vec<usize> = (0..n).map(|_| sh.next_id.fetch_add(1, Ordering::SeqCst)).collect();
                let (sh2, h2) = (sh.clone(), handle.clone());
                let ids2 = ids.clone();
                run_on(s, Box::new(move || {
                    for id in ids2 {
                        let sh3 = sh2.clone();
                        let _ = h2.spawn_fn(move || sh3.start(id));
                    }
                }));
                if stop_returned {
                    sh.after_stop.lock().unwrap().extend(ids);
                    labels.push("burst-after-stop");
                } else if !self_stopped {
                    sent_order.extend(ids);
                }
                after_send!();
            }
            COp::Sync => {
                if stop_returned || self_stopped || !gates.is_empty() {
                    continue;
                }
                let (mtx, mrx) = mpsc::channel();
                let h2 = handle.clone();
                run_on(s, Box::new(move || {
                    let _ = h2.spawn_fn(move || {
                        let _ = mtx.send(());
                    });
                }));
                pump(&runner);
                if mrx.recv_timeout(WATCHDOG).is_err() {
                    return Err(Fail::new("C10/sync-never-ran", "a marker function sent to a running arbiter did not run within the watchdog"));
                }
                syncs += 1;
                // every earlier top-level command has started
                let started: Vec<usize> = sh.starts.lock().unwrap().iter().map(|s| s.id).collect();
                for id in &sent_order {
                    if !started.contains(id) {
                        return Err(Fail::new("C10/not-fifo", format!("the marker sent after command {} has run but command {} has not started", id, id)));
                    }
                }
            }
            COp::Stop => {
                if stop_returned {
                    continue;
                }
                // release gates first? no: a stop queued behind a busy arbiter is the interesting case
                let h2 = handle.clone();
                sh.stop_sent.store(true, Ordering::SeqCst);
                run_on(s, Box::new(move || {
                    let _ = h2.stop();
                }));
                stop_returned = true;
                labels.push("stop-not-last");
                after_send!();
            }
        }
    }
    for (g, _, done) in gates.drain(..) {
        let _ = g.send(());
        let _ = done.recv_timeout(Duration::from_secs(2));
    }
    jitter(c.jitter[1] % 500);
    pump(&runner);
    // end: stop (if not yet) and join
    let had_stop = stop_returned;
    if !stop_returned {
        sh.stop_sent.store(true, Ordering::SeqCst);
        handle.stop();
    }
    for t in sender_tx.iter().flatten() {
        let _ = t.send(SenderCmd::Quit);
    }
    for t in sender_threads {
        let _ = t.join();
    }
    match arb {
        Some(a) => {
            if c.join_late {
                // the loop is seen to have ended (the command channel is closed) before join() is called
                let t = Instant::now();
                while handle.spawn(async {}) && t.elapsed() < Duration::from_secs(1) {
                    thread::sleep(Duration::from_millis(1));
                }
            }
            if join_timeout(a, WATCHDOG).is_err() {
                return Err(Fail::new("C10/join-hangs", "join() did not return after stop()"));
            }
            // join() returns only after the arbiter's thread is through: every task it still held
            // has been torn down by then
            for (started, dropped) in &slow_flags {
                if started.load(Ordering::SeqCst) && !dropped.load(Ordering::SeqCst) {
                    return Err(Fail::new("C10/join-before-teardown", "join() returned while the arbiter thread was still tearing down a task that was pending at the stop (its destructor had not finished)"));
                }
            }
            if !slow_flags.is_empty() {
                labels.push("join-after-loop-end-with-slow-teardown");
            }
            // after join: the loop has ended
            if handle.spawn(async {}) {
                return Err(Fail::new("C10/spawn-after-join", "spawn() returned true after join() had returned"));
            }
            if handle.stop() {
                return Err(Fail::new("C10/stop-after-join", "stop() returned true after join() had returned"));
            }
            for f in &pend_flags {
                if !f.load(Ordering::SeqCst) {
                    // a pending task that never started was dropped with its command: its flag is only set if it started
                }
            }
        }
        None => {
            pump(&runner);
            pump(&runner);
        }
    }
    let n_after_join = sh.starts.lock().unwrap().len();
    // block_on returns exactly its future's output
    let v = (c.jitter[0] as u64) << 16 | c.ops.len() as u64;
    let got = runner.block_on(async move {
        tokio::task::yield_now().await;
        let h = actix_rt::spawn(async move { v + 1 });
        h.await.unwrap_or(0) - 1
    });
    if got != v {
        return Err(Fail::new("C10/block-on-output", format!("block_on returned {} for a future producing {}", got, v)));
    }
    sys.stop();
    let _ = runner.run();
    thread::sleep(Duration::from_millis(2));
    let starts = sh.starts.lock().unwrap().clone();
    if !c.system_arbiter && starts.len() != n_after_join {
        return Err(Fail::new("C10/runs-after-join", format!("{} task(s) started after join() had returned", starts.len() - n_after_join)));
    }
    // functions sent to the system's own arbiter from a task of the thread arbiter ran on the system's thread
    if !c.system_arbiter {
        let me = thread::current().id();
        let via = sh.via_system.lock().unwrap().clone();
        if let Some(t) = via.iter().find(|t| **t != me) {
            return Err(Fail::new("C10/system-arbiter-wrong-thread", format!("a function sent to System::current().arbiter() from a task of a thread arbiter ran on {:?}; the system's arbiter lives on {:?}", t, me)));
        }
        if !via.is_empty() {
            labels.push("system-arbiter-reached-from-a-worker-task");
        }
    }
    // at most once
    let mut ids: Vec<usize> = starts.iter().map(|s| s.id).collect();
    ids.sort();
    if ids.windows(2).any(|w| w[0] == w[1]) {
        return Err(Fail::new("C10/ran-twice", "a command started twice"));
    }
    // on the arbiter's thread, with the creating system
    for s in &starts {
        if s.thread != arb_thread {
            return Err(Fail::new("C10/wrong-thread", format!("command {} started on {:?}, the arbiter's thread is {:?}", s.id, s.thread, arb_thread)));
        }
        if s.system != sys_id {
            return Err(Fail::new("C10/wrong-system", format!("command {} saw System id {} instead of {}", s.id, s.system, sys_id)));
        }
    }
    // FIFO: ids were assigned in send order (hand-over): the start order must be increasing
    let order_all: Vec<usize> = starts.iter().map(|s| s.id).collect();
    let order: Vec<usize> = order_all.iter().copied().filter(|id| *id < NESTED).collect();
    if order.windows(2).any(|w| w[0] > w[1]) {
        return Err(Fail::new("C10/not-fifo", format!("commands did not start in the order sent: start order {:?}", order)));
    }
    // nothing sent after stop() returned ever starts
    let after = sh.after_stop.lock().unwrap().clone();
    let bad: Vec<usize> = after.iter().copied().filter(|id| order_all.contains(id)).collect();
    if !bad.is_empty() {
        return Err(Fail::new("C10/started-after-stop", format!("{} command(s) sent after stop() had returned were started (ids {:?}...)", bad.len(), &bad[..bad.len().min(5)])));
    }
    if let Some(w) = sh.wrong.lock().unwrap().first() {
        return Err(Fail::new("C10/current-wrong", w.clone()));
    }
    let mut obs = Obs::new();
    for l in &labels {
        obs.label(l);
    }
    obs.label_if(nsend >= 2, "senders>=2");
    obs.label_if(syncs > 0, "sync");
    obs.label_if(c.system_arbiter, "system-arbiter");
    obs.label_if(c.prior_system, "second-system-on-this-thread");
    obs.label_if(c.custom_rt && !c.system_arbiter, "with_tokio_rt");
    obs.label_if((c.custom_rt && c.custom_rt_multi && !c.system_arbiter) || (c.system_arbiter && c.sys_rt % 3 == 2), "arbiter-on-multi-thread-runtime");
    obs.label_if(c.foreign_senders && nsend >= 2, "senders-of-another-system");
    obs.label_if(c.sys_rt % 3 != 0, "system-with_tokio_rt");
    obs.label_if(c.prior_system && c.system_arbiter && c.ops.iter().any(|(_, o)| matches!(o, COp::Spawn { k: Kind::Nested })), "current-arbiter-used-in-second-system");
    obs.label_if(!after.is_empty(), "sent-after-stop");
    obs.nontrivial = (sends_total >= 3 && had_stop && !after.is_empty()) || nsend >= 2 || labels.contains(&"panic-or-pend-task");
    Ok(obs)
}

// ---- generators --------------------------------------------------------------------------------

pub mod gen {
    use proptest::prelude::*;

    use super::*;

    fn fate() -> impl Strategy<Value = Fate> {
        prop_oneof![
            2 => Just(Fate::StoppedJoined),
            2 => Just(Fate::Detached),
            4 => Just(Fate::Idle),
            2 => Just(Fate::BusyYield),
            2 => any::<u8>().prop_map(|ms| Fate::BusyBlock { ms }),
            3 => any::<u8>().prop_map(|ms| Fate::StoppedSlowTeardown { ms }),
            3 => (any::<u8>(), any::<u8>()).prop_map(|(ms, n)| Fate::BusyBacklog { ms, n }),
            // one in about 25 of these is slow (1.1 s of real time per case)
            3 => (0u8..25).prop_map(|k| Fate::CustomRt { slow: k == 0 }),
        ]
    }

    fn code() -> impl Strategy<Value = i32> {
        prop::sample::select(vec![0, 1, -1, 7, i32::MIN, 3, 11])
    }

    pub fn c09() -> impl Strategy<Value = C09Case> {
        (
            prop::collection::vec(fate(), 0..4),
            prop_oneof![1 => Just(StopFrom::SystemBeforeRun), 2 => Just(StopFrom::SystemTask), 2 => any::<u8>().prop_map(|i| StopFrom::ArbiterTask { i }), 2 => Just(StopFrom::Foreign), 1 => Just(StopFrom::InsideBlockOn)],
            code(),
            prop::option::weighted(0.5, prop_oneof![2 => code().prop_map(|code| Second::Sequenced { code }), 1 => code().prop_map(|code| Second::Racing { code })]),
            prop::bool::weighted(0.25),
            [0u16..300, 0u16..300, 0u16..300],
            prop::bool::weighted(0.5),
            prop_oneof![3 => Just(0u8), 1 => Just(1u8), 1 => Just(2u8)],
            prop::bool::weighted(0.3),
        )
            .prop_map(|(arbiters, from, code, second, plain_run, jitter, arbiter_between, sys_rt, prior_system)| {
                // (derived, so that the tuple stays within proptest's arity)
                let late = if jitter[0] % 3 == 0 { 1 + (jitter[1] % 2) as u8 } else { 0 };
                // a sequenced second stop with the same code cannot be told apart
                let second = match second {
                    Some(Second::Sequenced { code: c2 }) if c2 == code => Some(Second::Sequenced { code: code.wrapping_add(5) }),
                    s => s,
                };
                let via_arbiter = jitter[2] % 3 == 0;
                C09Case { arbiters, from, code, second, plain_run, jitter, arbiter_between, sys_rt, prior_system, late, via_arbiter }
            })
    }

    fn kind() -> impl Strategy<Value = Kind> {
        prop_oneof![
            4 => Just(Kind::Complete),
            2 => any::<u8>().prop_map(|n| Kind::Yield { n }),
            1 => Just(Kind::PendForever),
            1 => Just(Kind::Panic),
            2 => Just(Kind::Nested),
            2 => any::<u8>().prop_map(|hold| Kind::Gated { hold }),
            1 => Just(Kind::SelfStopThenSpawn),
            1 => Just(Kind::ViaSystemArbiter),
            1 => Just(Kind::NestedAfterNew),
        ]
    }

    pub fn c10() -> impl Strategy<Value = C10Case> {
        let op = prop_oneof![
            5 => kind().prop_map(|k| COp::Spawn { k }),
            3 => Just(COp::SpawnFn),
            2 => Just(COp::Sync),
            1 => Just(COp::Stop),
            1 => any::<u8>().prop_map(|n| COp::Burst { n }),
        ];
        (prop::collection::vec((0u8..3, op), 1..12), 1u8..4, prop::bool::weighted(0.3), [0u16..300, 0u16..600], prop::bool::weighted(0.4), prop::bool::weighted(0.3), prop::bool::weighted(0.3), prop_oneof![3 => Just(0u8), 1 => Just(1u8), 1 => Just(2u8)], any::<bool>(), prop::bool::weighted(0.3))
            .prop_map(|(ops, senders, system_arbiter, jitter, prior_system, custom_rt, foreign_senders, sys_rt, custom_rt_multi, join_late)| C10Case { ops, senders, system_arbiter, jitter, prior_system, custom_rt, foreign_senders, sys_rt, custom_rt_multi, join_late })
    }
}
