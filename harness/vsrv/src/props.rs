//! Check entry points for the server properties.

use serde_json::Value;
use vcore::{Ctx, Part};

use crate::{
    l2::{Case, LKind, Op, Prop},
    l2props::*,
};

fn replay_l2(ctx: &Ctx, v: &Value, prop: Prop) -> i32 {
    ctx.replay::<Case>(v, |c| check(prop, c))
}

// ---- C02 ---------------------------------------------------------------------------------------

pub fn run_c02(ctx: &Ctx) {
    ctx.assume("L2: one OS thread steps the real accept loop; the only intra-function interleaving modelled is the window between send and inc_counter (hook H3); loopback connect() is visible to a zero-timeout poll and accept (measured, DESIGN.md section 7)");
    ctx.run_corpus::<Case>("l2", |c| check(Prop::C02, c));
    run_l2_part(ctx, "l2", Prop::C02, P_C02, ctx.tier.scale(240_000, 10),
        &[("saturated", 0.5), ("limit-constrained", 0.2), ("race-done", 0.1)],
        "some quiescent state had a non-empty backlog with every worker at its limit (the limit constrained dispatch), or a finish-before-count race happened on a saturated worker");
    {
        ctx.run_corpus::<crate::l3::Case>("l3", |c| crate::l3::run_case(c, crate::l3::Prop::C02));
        let rule = format!("{RULE_L3}; here: limits 1..3, 1..2 services, readiness failures (the service is re-created inside the live worker) and pending phases while the worker is at its limit; oracle: at every dispatch the worker has fewer than max_concurrent_connections connections in progress (received and waiting for their service call, or handler future not yet dropped); non-trivial = some dispatch brought the worker to its limit");
        ctx.run_random(
            Part::new("l3", &rule, ctx.tier.scale(40_000, 10)).floors(&[("dispatch-reaches-limit", 0.4), ("restart", 0.1), ("restart-while-saturated", 0.04)]).shrink_iters(4000),
            l3gen::c02_strategy,
            |c| crate::l3::run_case(c, crate::l3::Prop::C02),
        );
    }
    run_l4_part(ctx, crate::l4::Prop::C02, crate::l4::gen::P { pause: 0, inject: 0, panic: 0, stop: 0, busy: 0, uds: true, max_limit: 3, taskpanic: 1, abort: 0, gate: 1, churn: 0 }, ctx.tier.scale(400, 4), &[("saturated-with-waiting", 0.2)], "every worker at its limit with a client still waiting");
    {
        use crate::l4;
        let rule = format!("{RULE_L4}; every slot taken (1..2 workers x limit 1..2) with two more clients waiting, then 10.6 s in which nothing at all happens: no worker may hold more than its limit afterwards (the gauge inside Service::call and the number of greeted clients); non-trivial = every case");
        ctx.run_random(Part::new("l4-long-idle", &rule, ctx.tier.scale(4, 3)).floors(&[("saturated-and-quiet-for-10s", 0.9)]).shards(8).shrink_iters(1), l4::gen::long_idle_strategy, move |c| l4::run_case(c, l4::Prop::C02));
    }
}

pub fn replay_c02(ctx: &Ctx, v: &Value) -> i32 {
    match v["part"].as_str().unwrap_or("") {
        p if p.starts_with("l3") => ctx.replay::<crate::l3::Case>(v, |c| crate::l3::run_case(c, crate::l3::Prop::C02)),
        p if p.starts_with("l4") => replay_l4(ctx, v, crate::l4::Prop::C02),
        _ => replay_l2(ctx, v, Prop::C02),
    }
}

// ---- C03 ---------------------------------------------------------------------------------------

pub fn run_c03(ctx: &Ctx) {
    ctx.assume("liveness is judged as 'no stuck quiescent state' of the stepped system: accept loop blocked in poll, waker queue empty, a live worker below its limit, a client waiting on a registered listener");
    ctx.run_corpus::<Case>("l2", |c| check(Prop::C03, c));
    // exhaustive: all op lists up to length 7 over {Connect, Step, Pickup, Finish} for one worker, limits 1..3
    let alpha = [Op::Connect { l: 0 }, Op::Step, Op::Pickup { w: 0 }, Op::Finish { w: 0, k: 0 }];
    let max_len = ctx.tier.pick(6u32, 7u32);
    let per: u64 = (0..=max_len).map(|l| 4u64.pow(l)).sum();
    let total = per * 3;
    ctx.run_enum(
        Part::new("l2-exhaustive", "every op list up to the length bound over {connect, step, pickup, finish} with one worker and limits 1, 2, 3, each followed by the final drain; non-trivial = a finish on a saturated worker while a client waits", total),
        |shard, n, f: &mut dyn FnMut(&Case) -> bool| {
            let mut ix = shard as u64;
            while ix < total {
                let limit = 1 + (ix % 3) as usize;
                let mut i = ix / 3;
                let mut len = 0;
                loop {
                    let cnt = 4u64.pow(len);
                    if i < cnt {
                        break;
                    }
                    i -= cnt;
                    len += 1;
                }
                let mut ops = vec![];
                for _ in 0..len {
                    ops.push(alpha[(i % 4) as usize]);
                    i /= 4;
                }
                if !f(&Case { workers: 1, limit, listeners: vec![LKind::Tcp], ops }) {
                    return;
                }
                ix += n as u64;
            }
        },
        |c| check(Prop::C03, c),
    );
    run_l2_part(ctx, "l2", Prop::C03, P_C03, ctx.tier.scale(240_000, 10),
        &[("saturated", 0.5), ("finish-while-saturated-with-backlog", 0.15), ("race-done", 0.1)],
        "a connection finished on a worker that was at its limit while a client was waiting, followed by a quiescence check");
    run_l2_part(ctx, "l2-with-faults", Prop::C03, P_C03_FAULT, ctx.tier.scale(120_000, 10),
        &[("fault-discovered", 0.4), ("finish-while-saturated-with-backlog", 0.1), ("replace", 0.3)],
        "as above, in histories where a worker died and was replaced (a live worker below its limit must still be used)");
    run_l4_part(ctx, crate::l4::Prop::C03, crate::l4::gen::P { pause: 0, inject: 0, panic: 0, stop: 0, busy: 0, uds: true, max_limit: 3, taskpanic: 2, abort: 0, gate: 0, churn: 0 }, ctx.tier.scale(400, 4), &[("release-while-saturated", 0.2), ("handler-panic-while-saturated", 0.08)], "a held connection is released while every worker is at its limit and a client waits");
    {
        use crate::l4;
        let rule = format!("{RULE_L4}; runs of 500..3000 connections made one after the other on 1..2 workers with limit 1..2, each closed by the client once greeted, while a second thread sends resume() commands without pause (worker releases and commands race in the accept thread's waker queue); every connection must be greeted within the bound; non-trivial = every case");
        ctx.run_random(Part::new("l4-churn", &rule, ctx.tier.scale(16, 4)).floors(&[("churn-with-command-chatter", 0.9)]).shards(4).shrink_iters(4), l4::gen::churn_strategy, move |c| l4::run_case(c, l4::Prop::C03));
    }
}

pub fn replay_c03(ctx: &Ctx, v: &Value) -> i32 {
    match v["part"].as_str().unwrap_or("") {
        p if p.starts_with("l4") => replay_l4(ctx, v, crate::l4::Prop::C03),
        _ => replay_l2(ctx, v, Prop::C03),
    }
}

// ---- C04 ---------------------------------------------------------------------------------------

#[derive(Clone, Debug, serde::Serialize, serde::Deserialize, PartialEq)]
pub enum AOp {
    Set { i: u16, v: bool },
    Get { i: u16 },
    Available,
}

#[derive(Clone, Debug, serde::Serialize, serde::Deserialize, PartialEq)]
pub struct AvailCase {
    pub ops: Vec<AOp>,
}

/// differential against `[bool; 512]`: after every op all 512 gets and `available()` agree
pub fn check_avail(c: &AvailCase) -> vcore::CaseResult {
    use actix_server::verif::AvailabilityV;
    let r = std::panic::catch_unwind(std::panic::AssertUnwindSafe(|| -> vcore::CaseResult {
        let mut a = AvailabilityV::new();
        let mut m = [false; 512];
        let mut two_banks = std::collections::BTreeSet::new();
        for (step, op) in c.ops.iter().enumerate() {
            match *op {
                AOp::Set { i, v } => {
                    let i = i as usize % 512;
                    a.set(i, v);
                    m[i] = v;
                    two_banks.insert(i / 128);
                }
                AOp::Get { i } => {
                    let i = i as usize % 512;
                    vcore::vensure!(a.get(i) == m[i], "C04/availability-bit", "step {}: get({}) = {}, model {}", step, i, a.get(i), m[i]);
                }
                AOp::Available => {}
            }
            for i in 0..512 {
                vcore::vensure!(a.get(i) == m[i], "C04/availability-bit", "step {}: after {:?} bit {} reads {}, model says {} (bits are not independent)", step, op, i, a.get(i), m[i]);
            }
            vcore::vensure!(a.available() == m.iter().any(|b| *b), "C04/availability-any", "step {}: available() = {} but model has {} bits set", step, a.available(), m.iter().filter(|b| **b).count());
        }
        let mut obs = vcore::Obs::new();
        obs.nontrivial = two_banks.len() >= 2;
        obs.label_if(two_banks.len() >= 2, "two-banks");
        Ok(obs)
    }));
    match r {
        Ok(r) => r,
        Err(p) => Err(vcore::Fail::new("C04/availability-panic", format!("Availability panicked for an index below 512: {}", vcore::panic_message(&*p)))),
    }
}

pub fn run_c04(ctx: &Ctx) {
    use proptest::prelude::*;
    ctx.assume("round-robin is judged on the dispatch log (hook H4) against harness ground truth of saturation; re-admission of a released worker is C03's oracle and not repeated here");
    ctx.run_corpus::<Case>("l2", |c| check(Prop::C04, c));
    ctx.run_corpus::<AvailCase>("availability", check_avail);
    // (a) Availability: exhaustive over all ordered pairs (i, j) in 0..512^2: set i, set j, clear i
    let total: u64 = 512 * 512;
    ctx.run_enum(
        Part::new("availability-pairs", "all ordered pairs (i, j) of worker indices in 0..512: set(i), set(j), clear(i), clear(j) with all 512 bits and available() compared with a [bool;512] after every op; index 512 must panic (documented maximum); non-trivial = i and j in different 128-bit words", total).shards(8),
        |shard, n, f: &mut dyn FnMut(&AvailCase) -> bool| {
            let mut ix = shard as u64;
            while ix < total {
                let (i, j) = ((ix / 512) as u16, (ix % 512) as u16);
                if !f(&AvailCase { ops: vec![AOp::Set { i, v: true }, AOp::Set { i: j, v: true }, AOp::Set { i, v: false }, AOp::Available, AOp::Set { i: j, v: false }] }) {
                    return;
                }
                ix += n as u64;
            }
        },
        check_avail,
    );
    ctx.run_random(
        Part::new("availability", "random set/get/available sequences over indices 0..512 vs [bool;512]; non-trivial = two different 128-bit words touched", ctx.tier.scale(4_000, 10)),
        || prop::collection::vec(prop_oneof![3 => (any::<u16>(), any::<bool>()).prop_map(|(i, v)| AOp::Set { i, v }), 1 => any::<u16>().prop_map(|i| AOp::Get { i }), 1 => Just(AOp::Available)], 0..24).prop_map(|ops| AvailCase { ops }),
        check_avail,
    );
    // documented maximum: index >= 512 panics
    {
        let r = std::panic::catch_unwind(|| {
            let mut a = actix_server::verif::AvailabilityV::new();
            a.set(512, true);
        });
        if r.is_ok() {
            ctx.violation_external("availability", &AvailCase { ops: vec![AOp::Set { i: 512, v: true }] }, &vcore::Fail::new("C04/availability-max", "set_available(512) did not panic although 512 workers is the documented maximum"), "fixed probe");
        }
    }
    // (b) dispatch histories
    run_l2_part(ctx, "l2-unsaturated", Prop::C04, P_C04_UNSAT, ctx.tier.scale(120_000, 10), &[("dispatches>W", 0.5)],
        ">= 2 workers and more dispatches than workers; no worker ever saturated: any W consecutive dispatches go to W distinct workers");
    run_l2_part(ctx, "l2-after-restart", Prop::C04, P_C04_FAULT, ctx.tier.scale(120_000, 10), &[("fault-discovered", 0.4), ("replace", 0.4), ("saturated", 0.5)],
        "a worker was killed, replaced and rejoined, and a worker was saturated afterwards: once every fault is resolved a saturated worker receives nothing (handle positions and worker indices have diverged)");
    run_l2_part(ctx, "l2-after-restart-unsaturated", Prop::C04, P_C04_FAULT_UNSAT, ctx.tier.scale(80_000, 10), &[("fault-discovered", 0.3), ("replace", 0.3), ("pair-rule-after-restart", 0.12)],
        ">= 2 workers and more dispatches than workers; here a worker is killed, replaced and rejoins with a limit that never constrains (64): two consecutive connections go to two different workers whenever the rotation held at least two handles at the first and no handle was removed in between (pair rule, evaluated across the moment the replacement rejoins)");
    run_l2_part(ctx, "l2-skipping", Prop::C04, P_C04_SAT, ctx.tier.scale(120_000, 10), &[("dispatches>W", 0.4), ("saturated", 0.5)],
        ">= 2 workers and more dispatches than workers; with a stable set S of saturated workers the others are served round-robin and S receives nothing");
    // (b') the worker's side of "a saturated worker receives nothing until it has released a
    // connection": the real ServerWorker at limits 1..3 (readiness flaps and restarts at the limit)
    {
        ctx.run_corpus::<crate::l3::Case>("l3", |c| crate::l3::run_case(c, crate::l3::Prop::C04));
        let rule = format!("{RULE_L3}; here: limits 1..3, 1..2 services, readiness failures and pending phases while the worker is at its limit; oracle: the worker receives a connection only while it holds fewer than max_concurrent_connections (whatever the worker tells the accept loop about itself); non-trivial = some dispatch brought the worker to its limit");
        ctx.run_random(
            Part::new("l3", &rule, ctx.tier.scale(30_000, 10)).floors(&[("dispatch-reaches-limit", 0.4), ("restart", 0.1), ("readiness-pending", 0.05)]).shrink_iters(4000),
            l3gen::c02_strategy,
            |c| crate::l3::run_case(c, crate::l3::Prop::C04),
        );
    }
    // (c) end-to-end: worker threads seen by the service calls of a real server
    {
        use crate::l4;
        ctx.run_corpus::<l4::Case>("l4", |c| l4::run_case(c, l4::Prop::C04));
        let rule = format!("{RULE_L4}; here: 2..3 workers, limit 12 (never saturated), 3..10 clients each served before the next connects (hand-over, so call order equals dispatch order): any W consecutive connections are served by W distinct worker threads; non-trivial = the window rule was evaluated");
        ctx.run_random(Part::new("l4", &rule, ctx.tier.scale(300, 4)).floors(&[("round-robin-window-checked", 0.7), ("registered-by-address-list", 0.15)]).shards(8).shrink_iters(8), l4::gen::c04_strategy, |c| l4::run_case(c, l4::Prop::C04));
    }
    {
        use crate::l4;
        let rule = format!("{RULE_L4}; runs of 500..3000 connections made one after the other on 1..2 workers with limit 1..2, each closed by the client once greeted, while a second thread sends resume() commands without pause (worker releases and commands race in the accept thread's waker queue); every connection must be greeted within the bound; non-trivial = every case");
        ctx.run_random(Part::new("l4-churn", &rule, ctx.tier.scale(16, 4)).floors(&[("churn-with-command-chatter", 0.9)]).shards(4).shrink_iters(4), l4::gen::churn_strategy, move |c| l4::run_case(c, l4::Prop::C04));
    }
}

pub fn replay_c04(ctx: &Ctx, v: &Value) -> i32 {
    match v["part"].as_str().unwrap_or("") {
        p if p.starts_with("l3") => ctx.replay::<crate::l3::Case>(v, |c| crate::l3::run_case(c, crate::l3::Prop::C04)),
        p if p.starts_with("l4") => replay_l4(ctx, v, crate::l4::Prop::C04),
        p if p.starts_with("availability") => ctx.replay::<AvailCase>(v, check_avail),
        _ => replay_l2(ctx, v, Prop::C04),
    }
}

// ---- C05 ---------------------------------------------------------------------------------------

pub fn run_c05(ctx: &Ctx) {
    ctx.assume("accept errors are injected (hook H5) rather than provoked with RLIMIT_NOFILE; the back-off is judged in virtual time: a listener is exempt from the no-stranding rule only while now < error time + 510 ms; no lower bound on the back-off is asserted");
    ctx.run_corpus::<Case>("l2", |c| check(Prop::C05, c));
    run_l2_part(ctx, "l2", Prop::C05, P_C05, ctx.tier.scale(200_000, 10),
        &[("pause", 0.4), ("inject-fatal", 0.2), ("inject-per-connection", 0.2), ("uds", 0.4)],
        "the schedule contains a pause or an injected accept error (fatal or per-connection)");
    run_l4_part(ctx, crate::l4::Prop::C05, crate::l4::gen::P { pause: 3, inject: 3, panic: 0, stop: 0, busy: 0, uds: true, max_limit: 4, taskpanic: 0, abort: 0, gate: 0, churn: 0 }, ctx.tier.scale(200, 4), &[("pause", 0.3), ("inject", 0.3), ("backoff-under-load", 0.05)], "the script contains a pause or an injected accept error (exercises the real poll_with loop, which the stepped driver duplicates)");
}

pub fn replay_c05(ctx: &Ctx, v: &Value) -> i32 {
    match v["part"].as_str().unwrap_or("") {
        p if p.starts_with("l4") => replay_l4(ctx, v, crate::l4::Prop::C05),
        _ => replay_l2(ctx, v, Prop::C05),
    }
}

// ---- C08 ---------------------------------------------------------------------------------------

pub fn run_c08(ctx: &Ctx) {
    ctx.assume("a worker fault is modelled as the drop of the worker's queue receiver (what the death of a worker thread does, the receiver being the first field of ServerWorker); outstanding guards of the dead worker may be dropped later (late notifications)");
    ctx.run_corpus::<Case>("l2", |c| check(Prop::C08, c));
    run_l2_part(ctx, "l2", Prop::C08, P_C08, ctx.tier.scale(200_000, 10),
        &[("fault-discovered", 0.4), ("replace", 0.3), ("late-finish-of-dead-worker", 0.05), ("kill-saturated", 0.03), ("kill-idle", 0.2)],
        "a kill followed by a connect + step that discovers the fault");
    run_l4_part(ctx, crate::l4::Prop::C08, crate::l4::gen::P { pause: 0, inject: 0, panic: 4, stop: 1, busy: 0, uds: false, max_limit: 2, taskpanic: 1, abort: 0, gate: 2, churn: 0 }, ctx.tier.scale(300, 4), &[("worker-panic", 0.3), ("connects-right-after-fault", 0.15)], "a worker was killed by a panic inside Service::call (guards dropped while unwinding; service instances may take 500 ms to drop; connections that arrive right after the fault must not be discarded while another worker lives)");
    {
        use crate::l4;
        let rule = format!("{RULE_L4}; non-trivial = 17 or more workers were dead before the accept thread noticed the first fault (one burst of fault reports); every one is replaced (one service instantiation per listening socket and fault), and two rounds of connections made one after the other reach every replacement");
        ctx.run_random(Part::new("l4-all-workers-fault", &rule, ctx.tier.scale(24, 5)).floors(&[(">=17-workers-dead-at-once", 0.4)]).shards(8).shrink_iters(6), l4::gen::panic_all_strategy, move |c| l4::run_case(c, l4::Prop::C08));
        let rule2 = format!("{RULE_L4}; 3 workers; the service factory refuses the first instantiation after the initial ones (the first faulted worker cannot be replaced and the server goes on with two), then 2..4 more faults with 0..3 connections in between: every later fault is followed by a replacement (one instantiation per listening socket) and service resumes; non-trivial = a refused replacement followed by another fault");
        ctx.run_random(Part::new("l4-restart-refused", &rule2, ctx.tier.scale(24, 5)).floors(&[("replacement-refused-by-factory", 0.8)]).shards(8).shrink_iters(6), l4::gen::restart_refused_strategy, move |c| l4::run_case(c, l4::Prop::C08));
    }
}

pub fn replay_c08(ctx: &Ctx, v: &Value) -> i32 {
    match v["part"].as_str().unwrap_or("") {
        p if p.starts_with("l4") => replay_l4(ctx, v, crate::l4::Prop::C08),
        _ => replay_l2(ctx, v, Prop::C08),
    }
}

// ---- C01 (L2 part) -----------------------------------------------------------------------------

pub fn run_c01(ctx: &Ctx) {
    ctx.assume("L2 observes the accept side (what each worker's queue receives, identified by peer address / id bytes); connections queued at a killed worker count as released");
    ctx.run_corpus::<Case>("l2", |c| check(Prop::C01, c));
    run_l2_part(ctx, "l2", Prop::C01, P_C01, ctx.tier.scale(200_000, 10),
        &[("conns>=3", 0.5), ("uds", 0.3), ("saturated", 0.3), ("pause", 0.15), ("fault-discovered", 0.05)],
        ">= 2 listeners or >= 2 workers, >= 3 connections and a pause, kill, stop or saturation in the schedule");
    // worker side of routing: the real ServerWorker hands each received connection to the service of its listener
    ctx.run_corpus::<crate::l3::Case>("l3", |c| crate::l3::run_case(c, crate::l3::Prop::C01));
    let rule = format!("{RULE_L3}; oracle: every service call is for the next connection in worker receive order, on the service registered for the listener the client connected to, never twice, and nothing dispatched is left uncalled when every service is ready; non-trivial = >= 2 services and >= 2 calls");
    ctx.run_random(
        Part::new("l3", &rule, ctx.tier.scale(40_000, 10)).floors(&[("services>=2", 0.5), ("calls>=2", 0.4)]).shrink_iters(4000),
        l3gen::c07_strategy,
        |c| crate::l3::run_case(c, crate::l3::Prop::C01),
    );
    // the worker's side of "connections still queued at a worker when it shuts down are released"
    {
        let rule = format!("{RULE_L3}; here: stop scripts (shutdown_timeout 0/1/2/5 s, connections in progress, queued, and arriving while the worker shuts down); oracle: a graceful stop is not held up by connections that were never handed to a service (they are released at once, so the stop completes within a tick of its connections in progress having finished); non-trivial = a stop was issued with connections in progress");
        ctx.run_random(
            Part::new("l3-shutdown", &rule, ctx.tier.scale(20_000, 10)).floors(&[("stop-with-connections-in-progress", 0.2), ("graceful-stop", 0.4)]).shrink_iters(2000),
            l3gen::c06_strategy,
            |c| {
                let mut o = crate::l3::run_case(c, crate::l3::Prop::C01)?;
                o.nontrivial = o.labels.contains(&"stop-with-connections-in-progress");
                Ok(o)
            },
        );
    }
    run_l4_part(ctx, crate::l4::Prop::C01, crate::l4::gen::P { pause: 1, inject: 0, panic: 0, stop: 0, busy: 0, uds: true, max_limit: 3, taskpanic: 1, abort: 2, gate: 2, churn: 0 }, ctx.tier.scale(300, 4), &[("served-by>=2-workers", 0.2), ("registered-by-address", 0.15), ("registered-by-address-list", 0.15), ("accounting-with-client-resets", 0.1), ("client-reset-in-backlog", 0.05)], "connections were served by at least two worker threads or two listeners exist (each connection is served exactly once by the service of the listener it connected to)");
    run_l4_part_named(ctx, "l4-faults", crate::l4::Prop::C01, crate::l4::gen::P { pause: 0, inject: 0, panic: 4, stop: 1, busy: 0, uds: false, max_limit: 2, taskpanic: 0, abort: 0, gate: 3, churn: 0 }, ctx.tier.scale(160, 4), &[("worker-panic", 0.2), ("connects-right-after-fault", 0.1)], "a worker was killed by a panic inside Service::call and connections arrived right after it (with two or more workers none of them may be discarded; service instances may take 500 ms to drop while the worker unwinds)");
}

pub fn replay_c01(ctx: &Ctx, v: &Value) -> i32 {
    match v["part"].as_str().unwrap_or("") {
        p if p.starts_with("l3") => ctx.replay::<crate::l3::Case>(v, |c| crate::l3::run_case(c, crate::l3::Prop::C01)),
        p if p.starts_with("l4") => replay_l4(ctx, v, crate::l4::Prop::C01),
        _ => replay_l2(ctx, v, Prop::C01),
    }
}

// ---- L3: in-thread worker ----------------------------------------------------------------------

pub mod l3gen {
    use proptest::prelude::*;

    use crate::l3::{Case, Op, SvcState};

    fn sel() -> impl Strategy<Value = u16> {
        any::<u16>()
    }

    pub fn c07_strategy() -> impl Strategy<Value = Case> {
        let op = prop_oneof![
            6 => sel().prop_map(|l| vec![Op::Dispatch { l }]),
            6 => Just(vec![Op::Poll]),
            2 => sel().prop_map(|s| vec![Op::MakeReady { s }]),
            2 => sel().prop_map(|s| vec![Op::MakePending { s }]),
            1 => sel().prop_map(|s| vec![Op::FailNext { s }]),
            2 => sel().prop_map(|k| vec![Op::FinishConn { k }]),
            // idioms: queue connections while a service is pending, then release
            2 => (sel(), sel(), sel()).prop_map(|(s, l, l2)| vec![Op::MakePending { s }, Op::Poll, Op::Dispatch { l }, Op::Dispatch { l: l2 }, Op::Poll, Op::MakeReady { s }, Op::Poll]),
            // a readiness failure with connections queued behind it
            2 => (sel(), sel(), sel()).prop_map(|(s, l, l2)| vec![Op::Dispatch { l }, Op::FailNext { s }, Op::Dispatch { l: l2 }, Op::Poll, Op::Poll, Op::Poll]),
            // more connections than any per-poll batch could hold, queued while a service is pending
            1 => (sel(), sel(), any::<u8>()).prop_map(|(s, l, n)| vec![Op::MakePending { s }, Op::Poll, Op::DispatchBurst { l, n }, Op::Poll, Op::MakeReady { s }, Op::Poll]),
            1 => (sel(), any::<u8>()).prop_map(|(l, n)| vec![Op::DispatchBurst { l, n }, Op::Poll]),
            // the worker parks idle, a service turns pending / failing without a call in between, then a connection arrives
            2 => (sel(), sel(), sel()).prop_map(|(s, l, s2)| vec![Op::Poll, Op::MakePending { s }, Op::Dispatch { l }, Op::Poll, Op::MakeReady { s: s2 }, Op::Poll]),
            // several connections queued at once (with a service that changes its readiness by being called: after_call)
            2 => (sel(), sel(), sel(), sel()).prop_map(|(l, l2, l3, s)| vec![Op::Dispatch { l }, Op::Dispatch { l: l2 }, Op::Dispatch { l: l3 }, Op::Poll, Op::MakeReady { s }, Op::Poll, Op::MakeReady { s }, Op::Poll]),
            // a re-creation that takes its time
            1 => (sel(), sel()).prop_map(|(s, l)| vec![Op::HoldFactory { s }, Op::FailNext { s }, Op::Poll, Op::Dispatch { l }, Op::Poll, Op::ReleaseFactory { s }, Op::Poll]),
            // a graceful stop with a connection queued behind a service that is not ready: the
            // shutdown must not hand it to that service
            1 => (sel(), sel(), sel()).prop_map(|(s, l, l2)| vec![Op::Dispatch { l }, Op::Poll, Op::MakePending { s }, Op::Poll, Op::Dispatch { l: l2 }, Op::Stop { graceful: true }, Op::Poll, Op::Advance { ms: 1000 }, Op::Poll]),
        ];
        (
            1usize..4,
            prop::collection::vec(0u8..3, 3),
            prop::collection::vec(prop_oneof![3 => Just(SvcState::Ready), 1 => Just(SvcState::Pending)], 3),
            prop::collection::vec(op, 1..10),
            prop_oneof![2 => Just(8usize), 1 => Just(200usize)],
            prop_oneof![3 => Just(vec![]), 2 => prop::collection::vec(prop_oneof![1 => Just(0u8), 2 => Just(1u8), 1 => Just(2u8)], 3)],
        )
            .prop_map(|(services, factory_delay, initial, ops, limit, after_call)| Case { services, limit, shutdown_timeout_s: 30, factory_delay, initial, ops: ops.into_iter().flatten().collect(), after_call })
    }

    /// C02 at the worker: small limits, many connections, readiness failures (service restarts
    /// inside a live worker) and pending phases while the worker is at its limit
    pub fn c02_strategy() -> impl Strategy<Value = Case> {
        let op = prop_oneof![
            6 => sel().prop_map(|l| vec![Op::Dispatch { l }]),
            6 => Just(vec![Op::Poll]),
            1 => sel().prop_map(|s| vec![Op::MakeReady { s }]),
            1 => sel().prop_map(|s| vec![Op::MakePending { s }]),
            1 => sel().prop_map(|s| vec![Op::FailNext { s }]),
            3 => sel().prop_map(|k| vec![Op::FinishConn { k }]),
            // fill the worker, more clients behind, then a readiness failure: the restart must not re-open it
            3 => (sel(), sel(), sel(), sel()).prop_map(|(l, l2, l3, s)| vec![Op::Dispatch { l }, Op::Dispatch { l: l2 }, Op::Poll, Op::Dispatch { l: l3 }, Op::Dispatch { l }, Op::FailNext { s }, Op::Poll, Op::Poll, Op::Poll]),
            // the same with a pending phase
            2 => (sel(), sel(), sel(), sel()).prop_map(|(l, l2, l3, s)| vec![Op::Dispatch { l }, Op::Dispatch { l: l2 }, Op::Poll, Op::Dispatch { l: l3 }, Op::MakePending { s }, Op::Poll, Op::MakeReady { s }, Op::Poll]),
        ];
        (
            1usize..3,
            1usize..4,
            prop::collection::vec(0u8..3, 3),
            prop::collection::vec(op, 1..8),
        )
            .prop_map(|(services, limit, factory_delay, ops)| Case { services, limit, shutdown_timeout_s: 30, factory_delay, initial: vec![SvcState::Ready; 3], ops: ops.into_iter().flatten().collect(), after_call: vec![] })
    }

    pub fn c06_strategy() -> impl Strategy<Value = Case> {
        let ms = prop_oneof![3 => prop::sample::select(vec![0u32, 1, 250, 500, 999, 1000, 1001, 1500, 2000, 2999, 3000, 5000]), 1 => 0u32..6000];
        let pre = prop::collection::vec(
            prop_oneof![4 => sel().prop_map(|l| Op::Dispatch { l }), 4 => Just(Op::Poll), 1 => sel().prop_map(|k| Op::FinishConn { k }), 1 => sel().prop_map(|s| Op::MakePending { s }), 1 => sel().prop_map(|s| Op::MakeReady { s })],
            0..8,
        );
        let post = prop::collection::vec(
            prop_oneof![
                3 => ms.prop_map(|ms| Op::Advance { ms }),
                3 => Just(Op::Poll),
                3 => sel().prop_map(|k| Op::FinishConn { k }),
                1 => sel().prop_map(|l| Op::Dispatch { l }),
                1 => any::<bool>().prop_map(|graceful| Op::Stop { graceful }),
            ],
            0..10,
        );
        (1usize..3, prop::sample::select(vec![0u32, 1, 2, 5]), pre, prop_oneof![3 => Just(true), 1 => Just(false)], post, any::<bool>(), prop::bool::weighted(0.2))
            .prop_map(|(services, shutdown_timeout_s, mut ops, graceful, post, poll_first, race)| {
                if poll_first {
                    ops.push(Op::Poll);
                }
                // in a sixth of the cases the stop arrives while a service is being re-created and
                // its factory takes its time (never finishes within the case)
                if ops.len() % 6 == 5 {
                    ops.extend([Op::HoldFactory { s: 0 }, Op::FailNext { s: 0 }, Op::Poll, Op::Poll]);
                }
                if race {
                    ops.push(Op::DispatchStopRace { l: 0, graceful });
                } else {
                    ops.push(Op::Stop { graceful });
                }
                ops.extend(post);
                Case { services, limit: 8, shutdown_timeout_s, factory_delay: vec![0; 3], initial: vec![SvcState::Ready; 3], ops, after_call: vec![] }
            })
    }
}

const RULE_L3: &str = "L3: op lists (dispatch through the real stepped accept loop / poll the worker when its waker fired / make a service ready or pending / fail its next readiness check / finish a connection / 17..100 clients at once / hold back and release the factory of a re-created service / advance the virtual clock / stop graceful|forced) against the real ServerWorker future polled by hand under paused Tokio time with 1..3 scripted services (state-based readiness that wakes on change, factory futures pending 0..2 polls)";

pub fn run_c07(ctx: &Ctx) {
    use crate::l3;
    ctx.assume("the worker is re-polled only when the waker it was given fired; scripted services wake the stored waker whenever their readiness state changes, as a well-behaved service must");
    ctx.run_corpus::<l3::Case>("l3", |c| l3::run_case(c, l3::Prop::C07));
    let rule = format!("{RULE_L3}; oracle on the event log: each call is preceded, since the previous call and within the same poll of the worker, by a readiness check of every live service whose latest result is Ready(Ok); calls happen in receive order on the service of the connection's listener; a failed readiness check is followed by exactly one re-creation of that service only, the old instance is never used again; with all services ready every dispatched connection is called exactly once; non-trivial = a connection was queued while a service was pending/failing, or a restart happened");
    ctx.run_random(
        Part::new("l3", &rule, ctx.tier.scale(60_000, 10)).floors(&[("queued-while-unready", 0.3), ("restart", 0.15), ("services>=2", 0.5), ("readiness-pending", 0.3)]).shrink_iters(4000),
        l3gen::c07_strategy,
        |c| l3::run_case(c, l3::Prop::C07),
    );
    {
        use crate::l4;
        let rule = format!("{RULE_L4}; one worker (limit 12), 1..2 listeners; the services stop reporting readiness, 3..8 clients connect one after the other, readiness returns: per listener the service is called for them in connect order; non-trivial = at least 3 of them on one listener");
        ctx.run_random(Part::new("l4-order", &rule, ctx.tier.scale(64, 4)).floors(&[(">=3-queued-connections-order-checked", 0.5)]).shards(8).shrink_iters(6), l4::gen::order_strategy, move |c| l4::run_case(c, l4::Prop::C07));
    }
}

pub fn replay_c07(ctx: &Ctx, v: &Value) -> i32 {
    if v["part"].as_str().unwrap_or("").starts_with("l4") {
        return replay_l4(ctx, v, crate::l4::Prop::C07);
    }
    ctx.replay::<crate::l3::Case>(v, |c| crate::l3::run_case(c, crate::l3::Prop::C07))
}

// ---- C06 ---------------------------------------------------------------------------------------

pub fn run_c06(ctx: &Ctx) {
    use crate::l3;
    ctx.assume("L3 judges the worker's part of the shutdown protocol in virtual time (graceful: completes only when every connection in progress at the command has finished or shutdown_timeout has elapsed, and within one tick after that; forced: completes in the executor turn that delivers the command)");
    ctx.run_corpus::<l3::Case>("l3", |c| l3::run_case(c, l3::Prop::C06));
    let rule = format!("{RULE_L3}; shutdown_timeout in {{0,1,2,5}} s, 0..3 connections in progress or queued, one or two stop commands, clock advances clustered around the 1 s ticks; non-trivial = a stop was issued with a connection in progress");
    ctx.run_random(
        Part::new("l3", &rule, ctx.tier.scale(40_000, 10)).floors(&[("stop-with-connections-in-progress", 0.3), ("graceful-stop", 0.5), ("forced-stop", 0.2), ("stop-with-queued-connections", 0.1)]).shrink_iters(4000),
        l3gen::c06_strategy,
        |c| l3::run_case(c, l3::Prop::C06),
    );
    run_l4_part(ctx, crate::l4::Prop::C06, crate::l4::gen::P { pause: 1, inject: 0, panic: 0, stop: 1, busy: 2, uds: true, max_limit: 3, taskpanic: 1, abort: 0, gate: 1, churn: 0 }, ctx.tier.scale(96, 4), &[("worker-thread-busy", 0.04), ("stop-with-held-connections", 0.25), ("graceful-stop", 0.2), ("forced-stop", 0.2)], "a stop was issued while connections were held open");
    // the accept thread's part: a stop command queued behind other commands is processed (the
    // server joins the accept thread, so a stop it never sees never completes)
    run_l2_part(ctx, "l2-commands", Prop::C06, P_C06, ctx.tier.scale(40_000, 10), &[("stop", 0.25), ("ctl-burst", 0.2)],
        "a stop command was issued, alone or behind a burst of 18..40 pause/resume commands queued at once: stepped to quiescence, the accept loop has exited and left no command unprocessed");
    run_c06_signals(ctx);
}

fn run_c06_signals(ctx: &Ctx) {
    use crate::sig;
    let all = sig::all_cases();
    // quick: one case per signal x {idle, held+released, held+not released}; thorough: all
    let chosen: Vec<sig::Case> = if ctx.tier == vcore::Tier::Thorough {
        all
    } else {
        all.into_iter().filter(|c| c.held != 2 && !(c.shutdown_timeout_s == 30 && c.sig == sig::Sig::Term) && (c.shutdown_timeout_s == 2 || c.sig != sig::Sig::Term) && (c.shutdown_timeout_s == 30 || c.sig == sig::Sig::Term)).collect()
    };
    let total = chosen.len() as u64;
    ctx.run_enum(
        Part::new("signals", "the check binary re-executes itself as a server process with signals enabled (1 worker, shutdown_timeout 2 or 30 s); the parent holds 0..2 greeted connections, sends SIGTERM / SIGINT / SIGQUIT, optionally releases the connections 400 ms later, and times the process exit: SIGTERM must not exit before the connections are released or the timeout has elapsed, SIGINT/SIGQUIT must exit within 10 s although connections are held and the timeout is 30 s; enumerated configuration table; non-trivial = a connection was held when the signal arrived", total).shards(6),
        |shard, n, f: &mut dyn FnMut(&sig::Case) -> bool| {
            for (i, c) in chosen.iter().enumerate() {
                if i % n == shard && !f(c) {
                    return;
                }
            }
        },
        sig::check_case,
    );
}

pub fn replay_c06(ctx: &Ctx, v: &Value) -> i32 {
    match v["part"].as_str().unwrap_or("") {
        p if p.starts_with("signals") => ctx.replay::<crate::sig::Case>(v, crate::sig::check_case),
        p if p.starts_with("l4") => replay_l4(ctx, v, crate::l4::Prop::C06),
        p if p.starts_with("l2") => replay_l2(ctx, v, Prop::C06),
        _ => ctx.replay::<crate::l3::Case>(v, |c| crate::l3::run_case(c, crate::l3::Prop::C06)),
    }
}

// ---- C09 / C10: actix-rt under real threads ----------------------------------------------------

pub fn run_c09(ctx: &Ctx) {
    use crate::rt;
    ctx.assume("thread interleavings are sampled by the OS scheduler and only perturbed by generated jitter; hangs are judged by a 10 s watchdog (typical latencies are below 5 ms); a second stop issued by another thread may legitimately win");
    ctx.run_corpus::<rt::C09Case>("threads", rt::check_c09);
    ctx.run_random(
        Part::new("threads", "(0..3 arbiters each stopped-and-joined early / detached / idle / busy yielding / busy blocking / busy blocking with 33..160 further commands queued behind the blocking one so that the Stop command arrives at the end of a long queue / created through Arbiter::with_tokio_rt with a runtime factory of its own that is fast or (rarely) takes 1.1 s / dead-but-still-registered (stopped with a slowly dropping task queued behind the stop), stop issued from the system thread before run, a system task, an arbiter task or a foreign thread, exit codes incl. 0 and i32::MIN, optional second stop sequenced by the same thread (in half of the cases with an arbiter created between the two stop calls when they are issued from the system thread) or racing from another, run() or run_with_code(), jitter) on a fresh System per case; oracle: returned code is the first stop's (either when racing), run() is Ok iff the code is 0, every arbiter alive at the stop can be joined / drops its parked task; non-trivial = an arbiter alive at the stop and the stop not issued before run, or two stops", ctx.tier.scale(4_000, 8))
            .floors(&[("arbiter-alive-at-stop", 0.5), ("two-stops", 0.3), ("dead-but-registered-arbiter", 0.1), ("stop-from-arbiter", 0.05), ("stop-behind-long-queue", 0.1), ("with_tokio_rt", 0.08), ("arbiter-created-between-two-stops", 0.02)])
            .shrink_iters(24),
        rt::gen::c09,
        rt::check_c09,
    );
    run_c09_fresh(ctx);
}

fn run_c09_fresh(ctx: &Ctx) {
    use crate::rt;
    let cases = rt::fresh_process_cases();
    let total = cases.len() as u64;
    ctx.run_enum(
        Part::new("fresh-process", "every configuration of 1..3 arbiters, each idle / stopped and joined before the system stop / detached, with the stop issued by a system task or a foreign thread, each in a process of its own (the check binary re-executes itself) so that System and Arbiter ids start at zero; same oracle as part threads; non-trivial = at least two arbiters one of which ended before the stop", total),
        |shard, n, f: &mut dyn FnMut(&rt::C09Case) -> bool| {
            for (i, c) in cases.iter().enumerate() {
                if i % n == shard && !f(c) {
                    return;
                }
            }
        },
        rt::check_c09_fresh_process,
    );
}

pub fn replay_c09(ctx: &Ctx, v: &Value) -> i32 {
    if v["part"].as_str().unwrap_or("").starts_with("fresh-process") {
        return ctx.replay::<crate::rt::C09Case>(v, crate::rt::check_c09_fresh_process);
    }
    ctx.replay::<crate::rt::C09Case>(v, crate::rt::check_c09)
}

pub fn run_c10(ctx: &Ctx) {
    use crate::rt;
    ctx.assume("sends are totally ordered by hand-over between the harness and its sender threads, so FIFO and 'nothing sent after stop() returned ever starts' are asserted only where happens-before is established by the harness");
    ctx.run_corpus::<rt::C10Case>("threads", rt::check_c10);
    ctx.run_random(
        Part::new("threads", "command scripts, in 40% of the cases on a thread on which an earlier System has already been created, run and stopped, in 30% with sender threads that belong to another System, in 30% with an arbiter created through with_tokio_rt (spawn of tasks that complete / yield / pend forever / panic / send nested commands through Arbiter::current() / hold the arbiter thread while further commands are queued and then send a nested command / stop their own arbiter and then spawn; spawn_fn; sync markers; stop; bursts of 100-280 functions) issued through the owner handle and cloned handles on up to two other threads with hand-over, against a thread arbiter or the system arbiter; oracle on the start log (id, thread, system): strictly increasing ids in start order, no id twice, every start on the arbiter thread with the creating system, everything sent before a sync marker started before it ran, nothing sent after stop() returned ever starts, after join() spawn/stop return false and nothing starts, block_on returns its output; non-trivial = a stop that is not last with commands after it, or >= 2 senders, or a panicking/pending task", ctx.tier.scale(4_000, 8))
            .floors(&[("senders>=2", 0.4), ("sent-after-stop", 0.25), ("gated", 0.1), ("system-arbiter", 0.1), ("second-system-on-this-thread", 0.2), ("current-arbiter-used-in-second-system", 0.01), ("with_tokio_rt", 0.1), ("senders-of-another-system", 0.1)])
            .shrink_iters(40),
        rt::gen::c10,
        rt::check_c10,
    );
}

pub fn replay_c10(ctx: &Ctx, v: &Value) -> i32 {
    ctx.replay::<crate::rt::C10Case>(v, crate::rt::check_c10)
}

// ---- L4: end-to-end through the public API -----------------------------------------------------

const RULE_L4: &str = "L4: op scripts (connect a client that sends its id / release a held connection / settle = wait until the server has taken everything it has capacity for / pause / resume / inject an accept error / make the next Service::call panic / finish a held connection by a panic inside its handler future / connect and reset at once (RST; still accepted, must still reach Service::call) / sleep / stop graceful|forced, once or twice, future polled or dropped) against a real Server (1..3 workers, limit 1..4, 1..2 listeners TCP/UDS registered through listen()/listen_uds(), bind()/bind_uds() or bind() with a two-address list (two sockets, one factory; clients alternate between the addresses), shutdown_timeout 1..2 s) with real threads and real time; the service counts connections in progress per worker thread, greets the client and holds the connection until released; time bounds of 5 s (re-judged twice alone before counting)";

fn run_l4_part(ctx: &Ctx, prop: crate::l4::Prop, p: crate::l4::gen::P, cases: u64, floors: &[(&str, f64)], nt: &str) {
    run_l4_part_named(ctx, "l4", prop, p, cases, floors, nt)
}

fn run_l4_part_named(ctx: &Ctx, name: &str, prop: crate::l4::Prop, p: crate::l4::gen::P, cases: u64, floors: &[(&str, f64)], nt: &str) {
    use crate::l4;
    if name == "l4" {
        ctx.run_corpus::<l4::Case>("l4", |c| l4::run_case(c, prop));
    }
    let rule = format!("{RULE_L4}; non-trivial = {nt}");
    ctx.run_random(Part::new(name, &rule, cases).floors(floors).shards(8).shrink_iters(8), move || l4::gen::strategy(p), move |c| l4::run_case(c, prop));
}

fn replay_l4(ctx: &Ctx, v: &Value, prop: crate::l4::Prop) -> i32 {
    ctx.replay::<crate::l4::Case>(v, |c| crate::l4::run_case(c, prop))
}
