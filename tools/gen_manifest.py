#!/usr/bin/env python3
"""Regenerates /verif/MANIFEST.json from the table below (kept in one place so that the manifest
stays valid and current while checks are added)."""
import json, subprocess, os

CLAIMED = {
  # id: (technique, level text, level note, design ref)
  "C15": ("exhaustive small-scope enumeration + proptest generation + libFuzzer, judged by a reference line splitter and an encode/decode round trip",
          "Exploration: every byte string up to length 7 (thorough 8) over {a,CR,LF,0xC3,0xA9,0xFF} at every two-piece split, all sequences of <=3 strings of length <=3 over {a,CR,e-acute} for the round trip, plus tens of thousands of random longer inputs (thorough: x20 and a 2.4M-run coverage-guided campaign). The oracle is a reference splitter written from the property text, so any deviation of decode/decode_eof/encode on an explored input is reported. No claim beyond the explored inputs.",
          "Trusted: the reference splitter (30 lines), proptest/libFuzzer as case sources, serde for replay files.", "DESIGN.md section 5 C15"),
}

PENDING_REASON = "check not built yet in this session (planned in DESIGN.md section 5); not claimed until its quick command exists and passes on the unchanged tree"

props = [json.loads(l) for l in open('/verif/properties.jsonl')]
hook_commits = []
try:
    out = subprocess.run(['git','-C','/repo','log','--format=%H %s'],capture_output=True,text=True).stdout
    for line in out.splitlines():
        h, s = line.split(' ',1)
        if s.startswith('verif-hook:'):
            hook_commits.append(h)
except Exception:
    pass

checks = []
na = []
for p in props:
    i = p['id']
    if i in CLAIMED:
        tech, text, note, ref = CLAIMED[i]
        checks.append({
            "property_id": i,
            "quick_cmd": f"./check {i} quick",
            "thorough_cmd": f"./check {i} thorough",
            "evidence_file": f"/verif/evidence/{i}.json",
            "replay_cmd_template": f"./check {i} --replay {{path}}",
            "engine": "vcheck",
            "level_claimed": {"category": "exploration", "text": text, "design_ref": ref},
            "level_note": note,
            "technique": tech,
        })
    else:
        na.append({"property_id": i, "reason": PENDING_REASON})

m = {
  "version": 1,
  "setup_cmd": "./setup.sh",
  "hooks": {
    "guard": "actix_net_verif",
    "enable": "rustc cfg: RUSTFLAGS='--cfg actix_net_verif' (set by ./check and by /verif/harness/.cargo/config.toml); the harness depends on /repo crates by path, so every check rebuilds /repo's working tree with the guard on",
    "baseline_off_cmd": "cd /repo && cargo test --workspace --no-fail-fast --offline",
    "source_commits": list(reversed(hook_commits)),
    "add_only": True,
  },
  "engines": [
    {"name": "vcheck", "path": "/verif/harness", "serves_properties": sorted(CLAIMED), "kind_free_text": "proptest 1.11 driven from a binary (sharded TestRunners, fixed case counts, seeded from VERIF_SEED), exhaustive small-scope enumerators and cargo-fuzz/libFuzzer campaigns, all judging cases through the same per-property check_case oracle"},
  ],
  "checks": checks,
  "not_applicable": na,
  "notes": "exit 0 = held on everything explored; 1 = VIOLATION line with a replay file; 2 = inconclusive (build failure, generator-health failure, watchdog), never a violation. Replay: ./check <ID> --replay <file>.",
}
json.dump(m, open('/verif/MANIFEST.json','w'), indent=1)
print("claimed:", sorted(CLAIMED), "pending:", len(na))
