#![no_main]
use libfuzzer_sys::fuzz_target;
fuzz_target!(|data: &[u8]| {
    let case = vl1::c17::counter_case_from_bytes(data);
    vcore::fuzz::fuzz_one("C17", &case, vl1::c17::check_counter);
});
