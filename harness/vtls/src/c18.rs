//! C18 — TLS acceptors bound handshake time and concurrency and carry data intact.
//!
//! Real `accept::rustls_0_23` / `accept::openssl` acceptor services over in-memory pipes under
//! Tokio's paused clock; real rustls / OpenSSL clients behind a write shaper (stall after n bytes,
//! delay each write, garbage, disconnect).  Each case runs on a fresh thread because the handshake
//! limit is captured by a thread-local at first use.

use std::{
    cell::{Cell, RefCell},
    pin::Pin,
    rc::Rc,
    sync::{
        atomic::{AtomicUsize, Ordering},
        Arc, Mutex,
    },
    task::{Context, Poll, Wake, Waker},
    time::Duration,
};

use actix_service::{Service, ServiceFactory};
use actix_tls::accept::{max_concurrent_tls_connect, openssl as acc_ossl, rustls_0_23 as acc_rustls, TlsError};
use proptest::prelude::*;
use serde::{Deserialize, Serialize};
use serde_json::Value;
use tokio::io::{AsyncReadExt, AsyncWriteExt};
use vcore::{CaseResult, Ctx, Fail, Obs, Part};

use crate::{
    certs,
    io::{pipe_pair, Pipe, Shaped},
};

#[derive(Clone, Copy, Debug, Serialize, Deserialize, PartialEq, Eq)]
pub enum Lib {
    Rustls,
    Openssl,
}

#[derive(Clone, Debug, Serialize, Deserialize, PartialEq)]
pub enum Client {
    /// completes the handshake; `delays[i]` ms of virtual time before its i-th write; then payloads
    Complete { lib: Lib, delays: Vec<u32>, up: u32, down: u32 },
    /// stalls for good after `bytes` bytes of its handshake output
    StallAfter { lib: Lib, bytes: u16 },
    /// sends junk (optionally behind a valid TLS record header) and then stalls or closes
    Garbage { header: bool, len: u16, close: bool },
    /// closes the connection after `bytes` bytes of its handshake output
    Disconnect { lib: Lib, bytes: u16 },
}

#[derive(Clone, Debug, Serialize, Deserialize, PartialEq)]
pub struct Call {
    pub svc: u8,
    pub client: Client,
    /// virtual time offset (ms) at which the call is attempted
    pub at: u32,
    /// the call is made although the service answered not-ready (the API permits it)
    #[serde(default)]
    pub force: bool,
    /// the returned future is polled for the first time only this many ms (virtual) after the call
    /// (used with clients that never complete; less than half the handshake timeout)
    #[serde(default)]
    pub poll_delay_ms: u16,
    /// the future's very first poll is made with another waker than the one of the task that then
    /// drives it (an eager `now_or_never`-style poll, or a poll in one task before the future is
    /// moved into another)
    #[serde(default)]
    pub probe_first: bool,
}

#[derive(Clone, Debug, Serialize, Deserialize, PartialEq)]
pub struct Case {
    pub libs: Vec<Lib>,
    pub limit: usize,
    pub timeout_ms: u32,
    /// clone the configured acceptor factory before building the service
    pub cloned: bool,
    pub calls: Vec<Call>,
    /// capacity of the in-memory pipe per direction (0 = 1 MiB, i.e. never full)
    #[serde(default)]
    pub pipe_cap: u32,
    /// the server writes its payload with vectored writes of this many slices (0 = write_all)
    #[serde(default)]
    pub slices: u8,
    /// `max_concurrent_tls_connect` is called with this other value between the construction of
    /// the first and the second service (the thread's limit was fixed when the first one was built)
    #[serde(default)]
    pub relimit: Option<u8>,
}

#[derive(Clone, Debug, PartialEq)]
enum Outcome {
    Ok,
    Tls,
    Timeout,
}

struct CountW(AtomicUsize);
impl Wake for CountW {
    fn wake(self: Arc<Self>) {
        self.0.fetch_add(1, Ordering::SeqCst);
    }
    fn wake_by_ref(self: &Arc<Self>) {
        self.0.fetch_add(1, Ordering::SeqCst);
    }
}

fn pattern(seed: u8, n: usize) -> Vec<u8> {
    (0..n).map(|i| seed.wrapping_add((i as u8).wrapping_mul(31)).wrapping_add((i >> 8) as u8)).collect()
}

fn rustls_server_config() -> rustls::ServerConfig {
    static CFG: std::sync::OnceLock<rustls::ServerConfig> = std::sync::OnceLock::new();
    CFG.get_or_init(|| {
        let (cert, key) = certs::leaf(&["localhost".to_string()], &[], true);
        rustls::ServerConfig::builder()
            .with_no_client_auth()
            .with_single_cert(vec![rustls_pki_types::CertificateDer::from(cert)], rustls_pki_types::PrivateKeyDer::Pkcs8(rustls_pki_types::PrivatePkcs8KeyDer::from(key)))
            .unwrap()
    })
    .clone()
}

fn openssl_acceptor() -> openssl::ssl::SslAcceptor {
    use openssl::{pkey::PKey, ssl::{SslAcceptor, SslMethod}, x509::X509};
    static ACC: std::sync::OnceLock<SslAcceptor> = std::sync::OnceLock::new();
    ACC.get_or_init(|| {
        let (cert, key) = certs::leaf(&["localhost".to_string()], &[], true);
        let mut b = SslAcceptor::mozilla_intermediate_v5(SslMethod::tls()).unwrap();
        b.set_private_key(&PKey::private_key_from_pkcs8(&key).unwrap()).unwrap();
        b.set_certificate(&X509::from_der(&cert).unwrap()).unwrap();
        b.build()
    })
    .clone()
}

fn rustls_client_config() -> Arc<rustls::ClientConfig> {
    static CFG: std::sync::OnceLock<Arc<rustls::ClientConfig>> = std::sync::OnceLock::new();
    CFG.get_or_init(|| {
        let mut roots = rustls::RootCertStore::empty();
        roots.add(rustls_pki_types::CertificateDer::from(certs::ca_der())).unwrap();
        Arc::new(rustls::ClientConfig::builder().with_root_certificates(roots).with_no_client_auth())
    })
    .clone()
}

fn openssl_connector() -> openssl::ssl::SslConnector {
    use openssl::{ssl::{SslConnector, SslMethod}, x509::X509};
    static CON: std::sync::OnceLock<SslConnector> = std::sync::OnceLock::new();
    CON.get_or_init(|| {
        let mut b = SslConnector::builder(SslMethod::tls()).unwrap();
        b.cert_store_mut().add_cert(X509::from_der(&certs::ca_der()).unwrap()).unwrap();
        b.build()
    })
    .clone()
}

enum Svc {
    R(acc_rustls::AcceptorService),
    O(acc_ossl::AcceptorService),
}

impl Svc {
    fn poll_ready(&self, cx: &mut Context<'_>) -> Poll<()> {
        match self {
            Svc::R(s) => <acc_rustls::AcceptorService as Service<Pipe>>::poll_ready(s, cx).map(|_| ()),
            Svc::O(s) => <acc_ossl::AcceptorService as Service<Pipe>>::poll_ready(s, cx).map(|_| ()),
        }
    }
}

/// run a client behaviour on its end of the pipe; returns whether data integrity held (None = n/a)
async fn run_client(client: Client, end: Pipe) -> Option<Result<(), String>> {
    match client {
        Client::Complete { lib, delays, up, down } => {
            let shaped = Shaped::new(end, None, delays);
            let (up, down) = (up as usize, down as usize);
            match lib {
                Lib::Rustls => {
                    let c = tokio_rustls::TlsConnector::from(rustls_client_config());
                    let name = rustls_pki_types::ServerName::try_from("localhost").unwrap();
                    match c.connect(name, shaped).await {
                        Ok(mut s) => {
                            let r = exchange(&mut s, 7, up, 99, down).await;
                            // a well-behaved client stays connected (the server may still be
                            // writing post-handshake messages such as session tickets)
                            if r.is_ok() {
                                std::future::pending::<()>().await;
                            }
                            Some(r)
                        }
                        Err(e) => {
                            if std::env::var("VERIF_VERBOSE").is_ok() {
                                eprintln!("[c18] rustls client error: {:?}", e);
                            }
                            None
                        }
                    }
                }
                Lib::Openssl => {
                    let ssl = openssl_connector().configure().unwrap().into_ssl("localhost").unwrap();
                    let mut s = tokio_openssl::SslStream::new(ssl, shaped).unwrap();
                    match Pin::new(&mut s).connect().await {
                        Ok(()) => {
                            let r = exchange(&mut s, 7, up, 99, down).await;
                            if r.is_ok() {
                                std::future::pending::<()>().await;
                            }
                            Some(r)
                        }
                        Err(_) => None,
                    }
                }
            }
        }
        Client::StallAfter { lib, bytes } | Client::Disconnect { lib, bytes } => {
            let disconnect = matches!(client, Client::Disconnect { .. });
            let shaped = Shaped::new(end, Some(bytes as usize), vec![]);
            // the handshake future stalls once the budget is used up; whatever it produced stays
            // alive (dropping the stream would close the pipe and turn a stall into a disconnect)
            let hs = async move {
                match lib {
                    Lib::Rustls => {
                        let c = tokio_rustls::TlsConnector::from(rustls_client_config());
                        let name = rustls_pki_types::ServerName::try_from("localhost").unwrap();
                        let kept = c.connect(name, shaped).await;
                        std::future::pending::<()>().await;
                        drop(kept);
                    }
                    Lib::Openssl => {
                        let ssl = openssl_connector().configure().unwrap().into_ssl("localhost").unwrap();
                        let mut s = tokio_openssl::SslStream::new(ssl, shaped).unwrap();
                        let _ = Pin::new(&mut s).connect().await;
                        std::future::pending::<()>().await;
                        drop(s);
                    }
                }
            };
            if disconnect {
                // give the handshake a few turns to emit what the budget allows, then drop everything
                let _ = tokio::time::timeout(Duration::from_millis(5), hs).await;
            } else {
                hs.await;
            }
            None
        }
        Client::Garbage { header, len, close } => {
            let mut end = end;
            let mut junk = pattern(0x5a, len as usize);
            if header {
                let mut v = vec![0x16, 0x03, 0x01, (len >> 8) as u8, (len & 0xff) as u8];
                v.append(&mut junk);
                junk = v;
            }
            let _ = end.write_all(&junk).await;
            if !close {
                std::future::pending::<()>().await;
            }
            None
        }
    }
}

/// client side of the payload exchange: send `up` bytes, receive `down` bytes
async fn exchange<S: tokio::io::AsyncRead + tokio::io::AsyncWrite + Unpin>(s: &mut S, up_seed: u8, up: usize, down_seed: u8, down: usize) -> Result<(), String> {
    s.write_all(&pattern(up_seed, up)).await.map_err(|e| format!("client write: {e}"))?;
    s.flush().await.map_err(|e| format!("client flush: {e}"))?;
    let mut got = vec![0u8; down];
    s.read_exact(&mut got).await.map_err(|e| format!("client read: {e}"))?;
    if got != pattern(down_seed, down) {
        return Err("bytes written by the server arrived changed at the client".into());
    }
    // acknowledge: the server waits for this after its flush, without writing anything more and
    // without shutting down (request/response style)
    s.write_all(b"K").await.map_err(|e| format!("client ack: {e}"))?;
    s.flush().await.map_err(|e| format!("client ack flush: {e}"))?;
    // the server was asked to write exactly `down` bytes: nothing more may follow
    let mut extra = [0u8; 1];
    if let Ok(Ok(n)) = tokio::time::timeout(Duration::from_millis(300), s.read(&mut extra)).await {
        if n > 0 {
            return Err(format!("the client received more than the {down} bytes the server wrote (duplicated data)"));
        }
    }
    Ok(())
}

static LIMIT_LOCK: Mutex<()> = Mutex::new(());

pub fn check_case(c: &Case) -> CaseResult {
    let c2 = c.clone();
    let h = std::thread::Builder::new()
        .name("c18-case".into())
        .spawn(move || {
            let rt = tokio::runtime::Builder::new_current_thread().enable_time().start_paused(true).build().unwrap();
            let ls = tokio::task::LocalSet::new();
            ls.block_on(&rt, run_async(&c2))
        })
        .map_err(|e| Fail::new("harness/setup", format!("{e}")))?;
    match h.join() {
        Ok(r) => r,
        Err(p) => Err(Fail::new("C18/panic", format!("panic: {}", vcore::panic_message(&*p)))),
    }
}

struct CallRec {
    done: bool,
    issued: bool,
    issued_at: u64,
    resolved_at: Option<u64>,
    outcome: Option<Outcome>,
    integrity: Option<Result<(), String>>,
}

async fn run_async(c: &Case) -> CaseResult {
    certs::pki();
    let limit = c.limit.clamp(1, 3);
    let timeout = Duration::from_millis(c.timeout_ms as u64);
    let t0 = tokio::time::Instant::now();
    let now_ms = move || t0.elapsed().as_millis() as u64;
    // the limit is read into a thread-local counter at first use on this thread
    let services: Vec<Svc> = {
        let _g = LIMIT_LOCK.lock().unwrap_or_else(|e| e.into_inner());
        max_concurrent_tls_connect(limit);
        let mut v: Vec<Svc> = vec![];
        for lib in c.libs.iter().take(2) {
            if let (1, Some(other)) = (v.len(), c.relimit) {
                max_concurrent_tls_connect(1 + (other as usize % 4));
            }
            match lib {
                Lib::Rustls => {
                    let mut f = acc_rustls::Acceptor::new(rustls_server_config());
                    f.set_handshake_timeout(timeout);
                    let f = if c.cloned { f.clone() } else { f };
                    v.push(Svc::R(<acc_rustls::Acceptor as ServiceFactory<Pipe>>::new_service(&f, ()).await.unwrap()));
                }
                Lib::Openssl => {
                    let mut f = acc_ossl::Acceptor::new(openssl_acceptor());
                    f.set_handshake_timeout(timeout);
                    let f = if c.cloned { f.clone() } else { f };
                    v.push(Svc::O(<acc_ossl::Acceptor as ServiceFactory<Pipe>>::new_service(&f, ()).await.unwrap()));
                }
            }
        }
        v
    };
    if services.is_empty() {
        return Ok(Obs::new());
    }
    let inflight = Rc::new(Cell::new(0usize));
    let recs: Rc<RefCell<Vec<CallRec>>> = Rc::new(RefCell::new(vec![]));
    // the most recent poll_ready that answered Pending: (waker, its counter)
    let parked: Rc<RefCell<Option<Arc<CountW>>>> = Rc::new(RefCell::new(None));
    let gate_fail: Rc<RefCell<Option<String>>> = Rc::new(RefCell::new(None));
    let mut calls = c.calls.clone();
    calls.sort_by_key(|x| x.at);
    let mut handles = vec![];
    let mut reached_limit = false;
    let mut forced_over_limit = false;
    for (i, call) in calls.iter().enumerate() {
        let target = Duration::from_millis(call.at as u64);
        if t0.elapsed() < target {
            tokio::time::sleep_until(t0 + target).await;
        }
        let svc = &services[call.svc as usize % services.len()];
        let n = inflight.get();
        // every service on the thread shares the limit: the others are asked first (an answer one
        // of them gave earlier says nothing about now), the service that will be called last, so
        // that its waker is the one the counter keeps
        for (k, other) in services.iter().enumerate() {
            if k == call.svc as usize % services.len() {
                continue;
            }
            let ow = Arc::new(CountW(AtomicUsize::new(0)));
            let owaker = Waker::from(ow.clone());
            let mut ocx = Context::from_waker(&owaker);
            let oready = other.poll_ready(&mut ocx).is_ready();
            if oready != (n < limit) {
                return Err(Fail::new("C18/gate", format!("call {}: poll_ready of the other service on the thread is {} with {} handshake(s) in progress and a limit of {}", i, if oready { "Ready" } else { "Pending" }, n, limit)));
            }
        }
        let cw = Arc::new(CountW(AtomicUsize::new(0)));
        let waker = Waker::from(cw.clone());
        let mut cx = Context::from_waker(&waker);
        let ready = svc.poll_ready(&mut cx).is_ready();
        if n >= limit {
            reached_limit = true;
        }
        if ready != (n < limit) {
            return Err(Fail::new("C18/gate", format!("call {}: poll_ready is {} with {} handshake(s) in progress on the thread and a limit of {}", i, if ready { "Ready" } else { "Pending" }, n, limit)));
        }
        let proceed = ready || call.force;
        recs.borrow_mut().push(CallRec { done: !proceed, issued: proceed, issued_at: now_ms(), resolved_at: None, outcome: None, integrity: None });
        if !ready {
            *parked.borrow_mut() = Some(cw);
            if !proceed {
                continue;
            }
            forced_over_limit = true;
        }
        let (server_end, client_end) = if c.pipe_cap == 0 { pipe_pair() } else { crate::io::pipe_pair_cap(c.pipe_cap as usize) };
        inflight.set(n + 1);
        let (inflight2, recs2, parked2, gate_fail2) = (inflight.clone(), recs.clone(), parked.clone(), gate_fail.clone());
        let slices = c.slices as usize;
        let down = match &call.client {
            Client::Complete { down, .. } => *down as usize,
            _ => 0,
        };
        let up = match &call.client {
            Client::Complete { up, .. } => *up as usize,
            _ => 0,
        };
        // the accept future is created now (its timeout starts now), and driven by a local task
        enum Fut {
            R(acc_rustls::AcceptFut<Pipe>),
            O(acc_ossl::AcceptFut<Pipe>),
        }
        let fut = match svc {
            Svc::R(s) => Fut::R(s.call(server_end)),
            Svc::O(s) => Fut::O(s.call(server_end)),
        };
        let client = call.client.clone();
        let ch = tokio::task::spawn_local(async move { run_client(client, client_end).await });
        let probe_first = call.probe_first;
        let poll_delay = match &call.client {
            Client::Complete { .. } => 0,
            _ => (call.poll_delay_ms as u64).min(c.timeout_ms as u64 / 2),
        };
        handles.push(tokio::task::spawn_local(async move {
            let mut integrity = None;
            if poll_delay > 0 {
                // the caller gets round to the future a little later (a batch of calls, a busy task)
                tokio::time::sleep(Duration::from_millis(poll_delay)).await;
            }
            // called right after the accept future has resolved (and has been dropped with its guard)
            let mark = |o: Outcome| {
                {
                    let mut r = recs2.borrow_mut();
                    r[i].outcome = Some(o);
                    r[i].resolved_at = Some(t0.elapsed().as_millis() as u64);
                }
                let n = inflight2.get() - 1;
                inflight2.set(n);
                if n < limit {
                    if let Some(p) = parked2.borrow_mut().take() {
                        if p.0.load(Ordering::SeqCst) == 0 {
                            *gate_fail2.borrow_mut() = Some(format!("a handshake ended, {} of {} are in progress now, but the task that had been answered not-ready was not woken", n, limit));
                        }
                    }
                }
            };
            match fut {
                Fut::R(f) => match ProbeFirst::new(f, probe_first).await {
                    Ok(mut s) => {
                        mark(Outcome::Ok);
                        integrity = Some(server_exchange(&mut s, up, down, slices).await);
                    }
                    Err(TlsError::Timeout) => mark(Outcome::Timeout),
                    Err(e) => {
                        if std::env::var("VERIF_VERBOSE").is_ok() {
                            eprintln!("[c18] rustls accept error: {:?}", e);
                        }
                        mark(Outcome::Tls)
                    }
                },
                Fut::O(f) => match ProbeFirst::new(f, probe_first).await {
                    Ok(mut s) => {
                        mark(Outcome::Ok);
                        integrity = Some(server_exchange(&mut s, up, down, slices).await);
                    }
                    Err(TlsError::Timeout) => mark(Outcome::Timeout),
                    Err(e) => {
                        if std::env::var("VERIF_VERBOSE").is_ok() {
                            eprintln!("[c18] openssl accept error: {:?}", e);
                        }
                        mark(Outcome::Tls)
                    }
                },
            };
            {
                let mut r = recs2.borrow_mut();
                r[i].integrity = integrity;
                r[i].done = true;
            }
            let _ = ch;
        }));
    }
    // resolution times: poll the tasks to completion, recording virtual time per finished call.
    // (each task records its outcome; the time is taken when the outcome appears)
    let deadline = t0 + Duration::from_millis(calls.iter().map(|c| c.at as u64).max().unwrap_or(0) + c.timeout_ms as u64 + 20_000);
    loop {
        if recs.borrow().iter().all(|x| x.done) {
            break;
        }
        if tokio::time::Instant::now() >= deadline {
            break;
        }
        // the tasks record their own resolution times; this loop only waits for them
        tokio::time::sleep(Duration::from_millis(20)).await;
    }
    for h in handles {
        h.abort();
    }
    if let Some(m) = gate_fail.borrow().clone() {
        return Err(Fail::new("C18/gate-wakeup", m));
    }
    let mut obs = Obs::new();
    let recs = recs.borrow();
    let mut stalled_or_delayed = false;
    let mut big_payload = false;
    let mut vectored_backpressure = false;
    for (i, (rec, call)) in recs.iter().zip(calls.iter()).enumerate() {
        if !rec.issued {
            obs.label("call-gated");
            continue;
        }
        let Some(outcome) = rec.outcome.clone() else {
            return Err(Fail::new("C18/never-resolves", format!("call {} ({:?}) did not resolve within 20 s of virtual time after its handshake timeout of {} ms", i, call.client, c.timeout_ms)));
        };
        let elapsed = rec.resolved_at.unwrap() - rec.issued_at;
        let t = c.timeout_ms as u64;
        if elapsed > t + 2 {
            return Err(Fail::new("C18/late", format!("call {} ({:?}) resolved {} ms after it was made, later than the handshake timeout of {} ms (outcome {:?}, cloned factory: {})", i, call.client, elapsed, t, outcome, c.cloned)));
        }
        if outcome == Outcome::Timeout && elapsed + 2 < t {
            return Err(Fail::new("C18/early-timeout", format!("call {} ({:?}) reported a timeout after {} ms although the handshake timeout is {} ms (cloned factory: {})", i, call.client, elapsed, t, c.cloned)));
        }
        match &call.client {
            Client::Complete { delays, up, down, .. } => {
                let total: u64 = delays.iter().take(8).map(|d| *d as u64).sum();
                if delays.iter().any(|d| *d > 0) {
                    stalled_or_delayed = true;
                }
                if total + 10 < t {
                    if outcome != Outcome::Ok {
                        return Err(Fail::new("C18/complete-failed", format!("call {}: a client that completes its handshake with {} ms of total delay got {:?} (timeout {} ms)", i, total, outcome, t)));
                    }
                    match &rec.integrity {
                        Some(Ok(())) => {}
                        Some(Err(e)) => return Err(Fail::new("C18/integrity", format!("call {}: {} (payload up {} / down {} bytes)", i, e, up, down))),
                        // (the run waited 20 s of virtual time beyond the handshake timeout)
                        None => return Err(Fail::new("C18/integrity", format!("call {}: the handshake completed but the server's exchange (read {} bytes, write {} bytes, flush, wait for the client's acknowledgement) had not finished 20 s later: data written through the TLS stream never got through", i, up, down))),
                    }
                    if c.slices >= 2 && c.pipe_cap != 0 && (*down as usize) > c.pipe_cap as usize {
                        vectored_backpressure = true;
                    }
                    if *up > 16384 || *down > 16384 {
                        big_payload = true;
                    }
                } else if delays.first().map(|d| *d as u64 > t + 10).unwrap_or(false) && outcome != Outcome::Timeout {
                    return Err(Fail::new("C18/no-timeout", format!("call {}: the client's first flight was delayed by {} ms, beyond the timeout of {} ms, yet the call resolved with {:?}", i, delays[0], t, outcome)));
                }
            }
            Client::StallAfter { bytes, .. } => {
                stalled_or_delayed = true;
                if *bytes < 64 && outcome != Outcome::Timeout {
                    return Err(Fail::new("C18/stall", format!("call {}: a client that stalled after {} bytes got {:?} instead of a timeout", i, bytes, outcome)));
                }
                if outcome == Outcome::Tls {
                    return Err(Fail::new("C18/stall", format!("call {}: a stalled client produced a TLS error", i)));
                }
            }
            Client::Garbage { .. } | Client::Disconnect { .. } => {
                if outcome == Outcome::Ok && matches!(call.client, Client::Garbage { .. }) {
                    return Err(Fail::new("C18/garbage-accepted", format!("call {}: a garbage client got a TLS stream", i)));
                }
            }
        }
        obs.label(match outcome {
            Outcome::Ok => "outcome-ok",
            Outcome::Tls => "outcome-tls-error",
            Outcome::Timeout => "outcome-timeout",
        });
    }
    // when everything has ended every service is ready again
    if inflight.get() == 0 {
        for (k, s) in services.iter().enumerate() {
            let cw = Arc::new(CountW(AtomicUsize::new(0)));
            let waker = Waker::from(cw);
            let mut cx = Context::from_waker(&waker);
            if !s.poll_ready(&mut cx).is_ready() {
                return Err(Fail::new("C18/gate", format!("service {} is not ready although no handshake is in progress", k)));
            }
        }
    }
    obs.nontrivial = stalled_or_delayed || reached_limit || big_payload;
    obs.label_if(stalled_or_delayed, "stalled-or-delayed-client");
    obs.label_if(reached_limit, "limit-reached");
    obs.label_if(big_payload, "payload>16KiB");
    obs.label_if(vectored_backpressure, "vectored-write-under-backpressure");
    obs.label_if(c.pipe_cap != 0, "small-pipe");
    obs.label_if(forced_over_limit, "called-although-not-ready");
    obs.label_if(calls.iter().any(|x| x.probe_first), "first-poll-with-another-waker");
    obs.label_if(c.relimit.is_some() && services.len() >= 2, "limit-setter-called-between-services");
    obs.label_if(calls.iter().any(|x| x.poll_delay_ms > 0 && !matches!(x.client, Client::Complete { .. })), "future-polled-late");
    obs.label_if(c.cloned, "cloned-factory");
    obs.label_if(services.len() >= 2, "two-services");
    Ok(obs)
}

/// server side of the payload exchange: receive `up` bytes, send `down` bytes
async fn server_exchange<S: tokio::io::AsyncRead + tokio::io::AsyncWrite + Unpin>(s: &mut S, up: usize, down: usize, slices: usize) -> Result<(), String> {
    let mut got = vec![0u8; up];
    s.read_exact(&mut got).await.map_err(|e| format!("server read: {e}"))?;
    if got != pattern(7, up) {
        return Err("bytes written by the client arrived changed at the server".into());
    }
    let data = pattern(99, down);
    if slices >= 2 && down >= slices {
        // vectored writes: the payload cut into `slices` pieces, re-offered from the first
        // unwritten byte after every partial result (the write_all_vectored loop)
        let mut written = 0;
        while written < data.len() {
            let rest = &data[written..];
            let step = rest.len().div_ceil(slices);
            let bufs: Vec<std::io::IoSlice<'_>> = rest.chunks(step.max(1)).map(std::io::IoSlice::new).collect();
            let n = s.write_vectored(&bufs).await.map_err(|e| format!("server vectored write: {e}"))?;
            if n == 0 {
                return Err("server vectored write returned 0".into());
            }
            written += n;
        }
    } else {
        s.write_all(&data).await.map_err(|e| format!("server write: {e}"))?;
    }
    s.flush().await.map_err(|e| format!("server flush: {e}"))?;
    // everything written and flushed has to arrive without further writes or a shutdown: wait for
    // the client's acknowledgement (virtual time; it comes at once if the data got there)
    let mut ack = [0u8; 1];
    match tokio::time::timeout(Duration::from_secs(30), s.read_exact(&mut ack)).await {
        Ok(Ok(_)) if ack[0] == b'K' => Ok(()),
        Ok(Ok(_)) => Err("server: unexpected byte instead of the acknowledgement".into()),
        Ok(Err(e)) => Err(format!("server: waiting for the client's acknowledgement: {e}")),
        Err(_) => Err(format!("server: {down} bytes were written and flushed, yet the client had not received them 30 s later (flushed data stuck in the TLS stream)")),
    }
}

fn lib() -> impl Strategy<Value = Lib> {
    prop::sample::select(vec![Lib::Rustls, Lib::Openssl])
}

fn client(timeout_ms: u32) -> impl Strategy<Value = Client> {
    let t = timeout_ms;
    let delay = move || prop_oneof![3 => Just(0u32), 2 => 1u32..(t / 3).max(2), 1 => (t + 20)..(t + 2000)];
    let size = prop_oneof![2 => 0u32..64, 2 => 64u32..20_000, 1 => prop::sample::select(vec![16384u32, 16385, 40_000, 65_536])];
    prop_oneof![
        5 => (lib(), prop::collection::vec(delay(), 0..4), size.clone(), size).prop_map(|(lib, delays, up, down)| Client::Complete { lib, delays, up, down }),
        3 => (lib(), prop_oneof![3 => 0u16..64, 1 => 64u16..600]).prop_map(|(lib, bytes)| Client::StallAfter { lib, bytes }),
        1 => (any::<bool>(), 1u16..300, any::<bool>()).prop_map(|(header, len, close)| Client::Garbage { header, len, close }),
        1 => (lib(), 0u16..300).prop_map(|(lib, bytes)| Client::Disconnect { lib, bytes }),
    ]
}

pub fn strategy() -> impl Strategy<Value = Case> {
    (prop::collection::vec(lib(), 1..3), 1usize..4, prop::sample::select(vec![100u32, 500, 1000, 3000, 5000]), prop::bool::weighted(0.4))
        .prop_flat_map(|(libs, limit, timeout_ms, cloned)| {
            let calls = prop::collection::vec((0u8..2, client(timeout_ms), prop_oneof![3 => Just(0u32), 2 => 0u32..(timeout_ms + 200)]).prop_map(|(svc, client, at)| Call { svc, client, at, force: false, poll_delay_ms: 0, probe_first: false }), 1..6)
                .prop_flat_map(|calls| {
                    let n = calls.len();
                    (Just(calls), prop::collection::vec((prop::bool::weighted(0.25), prop_oneof![2 => Just(0u16), 1 => 1u16..2000]), n))
                })
                .prop_map(|(mut calls, extra)| {
                    for (c, (force, d)) in calls.iter_mut().zip(extra) {
                        c.force = force;
                        c.poll_delay_ms = d;
                        c.probe_first = d % 3 == 1 || (d == 0 && force);
                    }
                    calls
                });
            (Just(libs), Just(limit), Just(timeout_ms), Just(cloned), calls, prop_oneof![2 => Just(0u32), 1 => prop::sample::select(vec![700u32, 1500, 4096, 20_000])], prop_oneof![1 => Just(0u8), 1 => 2u8..5], prop::option::weighted(0.3, any::<u8>()))
        })
        .prop_map(|(libs, limit, timeout_ms, cloned, calls, pipe_cap, slices, relimit)| Case { libs, limit, timeout_ms, cloned, calls, pipe_cap, slices, relimit })
}

/// polls the wrapped future once with a foreign (no-op) waker before driving it normally
struct ProbeFirst<F: std::future::Future> {
    inner: std::pin::Pin<Box<F>>,
    probe: bool,
}
impl<F: std::future::Future> ProbeFirst<F> {
    fn new(f: F, probe: bool) -> Self {
        ProbeFirst { inner: Box::pin(f), probe }
    }
}
impl<F: std::future::Future> std::future::Future for ProbeFirst<F> {
    type Output = F::Output;
    fn poll(mut self: std::pin::Pin<&mut Self>, cx: &mut std::task::Context<'_>) -> std::task::Poll<F::Output> {
        if self.probe {
            self.probe = false;
            struct Nop;
            impl std::task::Wake for Nop {
                fn wake(self: std::sync::Arc<Self>) {}
            }
            let w = std::task::Waker::from(std::sync::Arc::new(Nop));
            if let std::task::Poll::Ready(v) = self.inner.as_mut().poll(&mut std::task::Context::from_waker(&w)) {
                return std::task::Poll::Ready(v);
            }
        }
        self.inner.as_mut().poll(cx)
    }
}

const RULE: &str = "(1..2 acceptor services on one thread from {rustls 0.23, OpenSSL}, limit 1..3, handshake timeout in {0.1, 0.5, 1, 3, 5} s, configured factory used directly or cloned, 1..5 calls at generated virtual times, a quarter of them made although the service answered not-ready, futures of non-completing clients first polled up to timeout/2 after the call, a third of the futures polled once with a foreign waker before their task drives them, max_concurrent_tls_connect optionally called with another value between building the two services; clients: complete (rustls or OpenSSL client, generated delay before each write, payloads up to 64 KiB both ways, the server writing its payload with write_all or with vectored writes of 2..4 slices), stall after n bytes, garbage with/without a record header, disconnect) over in-memory pipes (1 MiB per direction, or only 0.7..20 KB so that writers meet Pending in the middle of a write) under Tokio's paused clock, each case on a fresh thread; oracle: poll_ready of every service on the thread (all are asked before each call) is Pending iff the number of handshakes in progress on the thread is >= the limit and a parked poll is woken when a handshake ends; every call resolves to Ok / TLS error / Timeout no later than the timeout, Timeout never earlier, a completing client with total delay below the timeout gets Ok and both payloads arrive unchanged, a stalled client gets Timeout; non-trivial = a stalled or delayed client, the limit reached, or a payload > 16 KiB";

pub fn run(ctx: &Ctx) {
    ctx.assume("virtual time (tokio::time::pause) with millisecond sampling; client delays never sum to within 10 ms of the timeout (the tie is not ranked by the property); only the rustls 0.23 and OpenSSL acceptors named in the quantifier are built");
    ctx.run_corpus::<Case>("accept", check_case);
    ctx.run_random(
        Part::new("accept", RULE, ctx.tier.scale(30_000, 8)).floors(&[("stalled-or-delayed-client", 0.4), ("limit-reached", 0.2), ("outcome-ok", 0.3), ("outcome-timeout", 0.3), ("two-services", 0.3), ("cloned-factory", 0.2), ("small-pipe", 0.2), ("vectored-write-under-backpressure", 0.02), ("called-although-not-ready", 0.07), ("future-polled-late", 0.2), ("limit-setter-called-between-services", 0.07)]).shrink_iters(300),
        strategy,
        check_case,
    );
}

pub fn replay(ctx: &Ctx, v: &Value) -> i32 {
    ctx.replay::<Case>(v, check_case)
}

/// C17's third anchor (actix-tls/src/accept/mod.rs): the acceptor services of one thread are gated
/// by clones of ONE Counter. Same cases as C18, judged only on the gate rules.
pub fn check_gate(c: &Case) -> CaseResult {
    match check_case(c) {
        Err(f) if f.sig.starts_with("C18/gate") => Err(Fail::new(f.sig.replace("C18/", "C17/tls-"), f.msg)),
        Err(_) => Ok(Obs::new()),
        ok => ok,
    }
}

const RULE_GATE: &str = "the Counter as the TLS acceptors use it (one per thread, cloned into every acceptor service built there): cases of C18's accept part (1..2 services from {rustls 0.23, OpenSSL}, limit 1..3, configured factory direct or cloned, max_concurrent_tls_connect optionally called with another value between building the two services, calls forced while not ready); oracle: poll_ready of every service on the thread is Pending iff the number of handshakes in progress on the thread is >= the limit in force when the first service was built, and a parked poll is woken when a handshake ends below the limit; non-trivial = the limit was reached";

pub fn run_gate(ctx: &Ctx) {
    ctx.run_corpus::<Case>("tls-gate", check_gate);
    ctx.run_random(Part::new("tls-gate", RULE_GATE, ctx.tier.scale(6_000, 8)).floors(&[("limit-reached", 0.2), ("two-services", 0.3), ("limit-setter-called-between-services", 0.07)]).shrink_iters(300), strategy, |c| {
        let mut r = check_gate(c);
        if let Ok(o) = &mut r {
            o.nontrivial = o.labels.contains(&"limit-reached");
        }
        r
    });
}

pub fn replay_gate(ctx: &Ctx, v: &Value) -> i32 {
    ctx.replay::<Case>(v, check_gate)
}
