//! Scripted leaves, state-based leaf futures, harness-owned type erasure and the manual executor
//! shared by C11 (functional composition) and C12 (readiness / polling contracts).

use std::{
    cell::{Cell, RefCell},
    future::Future,
    pin::Pin,
    rc::Rc,
    sync::{
        atomic::{AtomicUsize, Ordering},
        Arc,
    },
    task::{Context, Poll, Wake, Waker},
};

use actix_service::{Service, ServiceFactory, Transform};
use serde::{Deserialize, Serialize};

pub type BF<T> = Pin<Box<dyn Future<Output = T>>>;

/// injective affine map on u32 (a is forced odd)
#[derive(Clone, Copy, Debug, Serialize, Deserialize, PartialEq)]
pub struct Aff {
    pub a: u32,
    pub b: u32,
}
impl Aff {
    pub fn ap(self, x: u32) -> u32 {
        (self.a | 1).wrapping_mul(x).wrapping_add(self.b)
    }
    pub const ID: Aff = Aff { a: 1, b: 0 };
}

#[derive(Clone, Copy, Debug, Serialize, Deserialize, PartialEq)]
pub enum Out {
    Ok(Aff),
    Err(Aff),
}

#[derive(Clone, Copy, Debug, Serialize, Deserialize, PartialEq)]
pub enum RFinal {
    Ok,
    Err(u32),
}

#[derive(Clone, Copy, Debug, Serialize, Deserialize, PartialEq)]
pub enum InitOut {
    Ok,
    Err(u32),
}

/// Script of one leaf (service leaf, factory leaf, transform or config function — all "items").
#[derive(Clone, Debug, Serialize, Deserialize, PartialEq, Default)]
pub struct LeafScript {
    /// readiness for request n: pending for k rounds, then the final state
    pub ready: Vec<(u8, RFinal)>,
    /// n-th call: pending for k rounds, then Ok(f(req)) / Err(g(req))
    pub calls: Vec<(u8, Out)>,
    /// init future of the factory / transform / config function that creates this leaf
    pub init: Option<(u8, InitOut)>,
    /// coupling of call futures through one shared permit (functional mode only): 1 = the call
    /// future takes the permit when it is created (if free) and gives it back when it is dropped,
    /// 2 = the call future cannot make progress while another future holds the permit
    #[serde(default)]
    pub permit: u8,
    /// readiness that lapses: once the leaf has been ready for `.0` executor rounds without being
    /// called it turns pending for `.1` rounds and then reaches `.2` (a service may stop being
    /// ready, e.g. because a resource it had was taken by someone else)
    #[serde(default)]
    pub lapse: Option<(u8, u8, RFinal)>,
}

#[derive(Clone, Debug, PartialEq)]
pub enum Ev {
    Call { leaf: usize, req: u32 },
    Done { leaf: usize },
    MapApply { node: usize, input: u32 },
    MapErrApply { node: usize, input: u32 },
    ApplyFn { node: usize, req: u32 },
    NewService { leaf: usize, cfg: u32 },
    InitDone { leaf: usize, ok: bool },
    MapInitErrApply { node: usize, input: u32 },
    MapCfgApply { node: usize, input: u32 },
    NewTransform { item: usize },
    CfgFn { item: usize, cfg: u32, deps_ready: bool },
}

#[derive(Clone, Copy, Debug, PartialEq)]
pub enum RState {
    Pending(u32),
    Ok,
    Err(u32),
}

pub struct LeafState {
    /// rounds of readiness left before it lapses (see `LeafScript::lapse`)
    pub lapse_left: Option<u8>,
    pub ready: RState,
    pub polled_round: Option<u32>,
    pub waker_ok: bool,
    pub waker: Option<Waker>,
    pub calls: usize,
}

#[derive(Clone, Copy, Debug, PartialEq)]
pub enum FutKind {
    Call,
    Init,
}

pub struct FutState {
    pub kind: FutKind,
    pub leaf: usize,
    pub countdown: u32,
    pub done: bool,
    pub polled_round: Option<u32>,
    pub waker_ok: bool,
    pub waker: Option<Waker>,
    pub created_round: u32,
    pub fails: bool,
    pub needs_permit: bool,
    /// init future of a transform: the transform item it belongs to
    pub creator: Option<usize>,
}

pub struct CountW(pub AtomicUsize);
impl Wake for CountW {
    fn wake(self: Arc<Self>) {
        self.0.fetch_add(1, Ordering::SeqCst);
    }
    fn wake_by_ref(self: &Arc<Self>) {
        self.0.fetch_add(1, Ordering::SeqCst);
    }
}

pub struct World {
    pub log: RefCell<Vec<Ev>>,
    pub round: Cell<u32>,
    pub cur: RefCell<Option<(Arc<CountW>, Waker)>>,
    pub leaves: RefCell<Vec<LeafState>>,
    pub futs: RefCell<Vec<FutState>>,
    pub contract: RefCell<Vec<String>>,
    pub scripts: Vec<LeafScript>,
    /// index of the request currently being served (selects readiness scripts)
    pub req_ix: Cell<usize>,
    /// permit coupling enabled (functional mode)
    pub permits: Cell<bool>,
    pub permit_holder: Cell<Option<usize>>,
    pub permit_waiter: RefCell<Option<Waker>>,
    /// a future was refused progress because the permit was held
    pub permit_blocked: Cell<bool>,
    /// a hold-future took the permit and a need-future ran in the same case
    pub permit_used: Cell<(bool, bool)>,
    /// transform items whose object has been dropped
    pub dropped_transforms: RefCell<Vec<usize>>,
    /// some leaf's readiness lapsed
    pub lapsed: Cell<bool>,
}

pub type W = Rc<World>;

impl World {
    pub fn new(scripts: Vec<LeafScript>, nleaves: usize) -> W {
        let mut leaves = vec![];
        for _ in 0..nleaves {
            leaves.push(LeafState { lapse_left: None, ready: RState::Ok, polled_round: None, waker_ok: false, waker: None, calls: 0 });
        }
        Rc::new(World {
            log: RefCell::new(vec![]),
            round: Cell::new(0),
            cur: RefCell::new(None),
            leaves: RefCell::new(leaves),
            futs: RefCell::new(vec![]),
            contract: RefCell::new(vec![]),
            scripts,
            req_ix: Cell::new(0),
            permits: Cell::new(false),
            permit_holder: Cell::new(None),
            permit_waiter: RefCell::new(None),
            permit_blocked: Cell::new(false),
            permit_used: Cell::new((false, false)),
            dropped_transforms: RefCell::new(vec![]),
            lapsed: Cell::new(false),
        })
    }

    pub fn script(&self, leaf: usize) -> LeafScript {
        self.scripts.get(leaf).cloned().unwrap_or_default()
    }

    pub fn ev(&self, e: Ev) {
        self.log.borrow_mut().push(e);
    }

    /// start a new executor round with a fresh waker identity
    pub fn begin_round(&self) -> Waker {
        self.round.set(self.round.get() + 1);
        let a = Arc::new(CountW(AtomicUsize::new(0)));
        let w = Waker::from(a.clone());
        *self.cur.borrow_mut() = Some((a, w.clone()));
        w
    }

    pub fn cur_woken(&self) -> bool {
        self.cur.borrow().as_ref().map(|(a, _)| a.0.load(Ordering::SeqCst) > 0).unwrap_or(false)
    }

    fn is_cur(&self, w: &Waker) -> bool {
        self.cur.borrow().as_ref().map(|(_, c)| c.will_wake(w)).unwrap_or(false)
    }

    /// load the readiness scripts of request `n` into the leaf states
    pub fn load_readiness(&self, n: usize) {
        self.req_ix.set(n);
        for (i, l) in self.leaves.borrow_mut().iter_mut().enumerate() {
            let (k, fin) = self.script(i).ready.get(n).copied().unwrap_or((0, RFinal::Ok));
            l.ready = if k > 0 {
                RState::Pending(k as u32)
            } else {
                match fin {
                    RFinal::Ok => RState::Ok,
                    RFinal::Err(e) => RState::Err(e),
                }
            };
            l.polled_round = None;
            l.waker = None;
            l.lapse_left = self.script(i).lapse.map(|x| x.0);
        }
    }

    /// time passes: every pending readiness state and every live leaf future moves one step and
    /// wakes the waker it stored (as a well-behaved leaf must)
    pub fn advance(&self) -> usize {
        let mut moved = 0;
        let n = self.req_ix.get();
        let mut wake = vec![];
        for (i, l) in self.leaves.borrow_mut().iter_mut().enumerate() {
            if let (RState::Ok, Some(left)) = (l.ready, l.lapse_left) {
                // readiness that nobody used lapses
                if left == 0 {
                    let (_, k, fin) = self.script(i).lapse.unwrap();
                    l.lapse_left = None;
                    l.ready = if k > 0 {
                        RState::Pending(k as u32)
                    } else {
                        match fin {
                            RFinal::Ok => RState::Ok,
                            RFinal::Err(e) => RState::Err(e),
                        }
                    };
                    self.lapsed.set(true);
                    moved += 1;
                } else {
                    l.lapse_left = Some(left - 1);
                }
                continue;
            }
            if let RState::Pending(k) = l.ready {
                moved += 1;
                l.ready = if k > 1 {
                    RState::Pending(k - 1)
                } else {
                    match self.script(i).ready.get(n).map(|x| x.1).unwrap_or(RFinal::Ok) {
                        RFinal::Ok => RState::Ok,
                        RFinal::Err(e) => RState::Err(e),
                    }
                };
                if let Some(w) = l.waker.take() {
                    wake.push(w);
                }
            }
        }
        for f in self.futs.borrow_mut().iter_mut() {
            if !f.done && f.countdown > 0 {
                moved += 1;
                f.countdown -= 1;
                if let Some(w) = f.waker.take() {
                    wake.push(w);
                }
            }
        }
        for w in wake {
            w.wake();
        }
        moved
    }

    pub fn live_futs(&self) -> Vec<usize> {
        self.futs.borrow().iter().enumerate().filter(|(_, f)| !f.done).map(|(i, _)| i).collect()
    }
}

// ---- leaf service ------------------------------------------------------------------------------

#[derive(Clone)]
pub struct LeafSvc {
    pub id: usize,
    pub w: W,
}

pub struct LeafFut {
    ix: usize,
    out: Result<u32, u32>,
    w: W,
}

impl Future for LeafFut {
    type Output = Result<u32, u32>;
    fn poll(self: Pin<&mut Self>, cx: &mut Context<'_>) -> Poll<Self::Output> {
        let w = &self.w;
        let mut futs = w.futs.borrow_mut();
        let f = &mut futs[self.ix];
        if f.done {
            w.contract.borrow_mut().push(format!("leaf {} call future polled again after it completed", f.leaf));
            return Poll::Ready(self.out);
        }
        f.polled_round = Some(w.round.get());
        f.waker_ok = w.is_cur(cx.waker());
        if f.needs_permit {
            let u = w.permit_used.get();
            w.permit_used.set((u.0, true));
            if let Some(h) = w.permit_holder.get() {
                if h != self.ix {
                    // whoever holds the permit gives it back when its future is dropped
                    w.permit_blocked.set(true);
                    *w.permit_waiter.borrow_mut() = Some(cx.waker().clone());
                    return Poll::Pending;
                }
            }
        }
        if f.countdown == 0 {
            f.done = true;
            let leaf = f.leaf;
            drop(futs);
            w.ev(Ev::Done { leaf });
            Poll::Ready(self.out)
        } else {
            f.waker = Some(cx.waker().clone());
            Poll::Pending
        }
    }
}

impl Drop for LeafFut {
    fn drop(&mut self) {
        if self.w.permit_holder.get() == Some(self.ix) {
            self.w.permit_holder.set(None);
            if let Some(wk) = self.w.permit_waiter.borrow_mut().take() {
                wk.wake();
            }
        }
    }
}

impl Service<u32> for LeafSvc {
    type Response = u32;
    type Error = u32;
    type Future = LeafFut;

    fn poll_ready(&self, cx: &mut Context<'_>) -> Poll<Result<(), u32>> {
        let mut ls = self.w.leaves.borrow_mut();
        let l = &mut ls[self.id];
        l.polled_round = Some(self.w.round.get());
        l.waker_ok = self.w.is_cur(cx.waker());
        match l.ready {
            RState::Ok => Poll::Ready(Ok(())),
            RState::Err(e) => Poll::Ready(Err(e)),
            RState::Pending(_) => {
                l.waker = Some(cx.waker().clone());
                Poll::Pending
            }
        }
    }

    fn call(&self, req: u32) -> LeafFut {
        let n = {
            let mut ls = self.w.leaves.borrow_mut();
            let n = ls[self.id].calls;
            ls[self.id].calls += 1;
            n
        };
        let (k, out) = self.w.script(self.id).calls.get(n).copied().unwrap_or((0, Out::Ok(Aff::ID)));
        let out = match out {
            Out::Ok(f) => Ok(f.ap(req)),
            Out::Err(f) => Err(f.ap(req)),
        };
        self.w.ev(Ev::Call { leaf: self.id, req });
        let mut futs = self.w.futs.borrow_mut();
        futs.push(FutState {
            kind: FutKind::Call,
            leaf: self.id,
            countdown: k as u32,
            done: false,
            polled_round: None,
            waker_ok: false,
            waker: None,
            created_round: self.w.round.get(),
            fails: out.is_err(),
            needs_permit: self.w.permits.get() && self.w.script(self.id).permit == 2,
            creator: None,
        });
        if self.w.permits.get() && self.w.script(self.id).permit == 1 && self.w.permit_holder.get().is_none() {
            self.w.permit_holder.set(Some(futs.len() - 1));
            let u = self.w.permit_used.get();
            self.w.permit_used.set((true, u.1));
        }
        LeafFut { ix: futs.len() - 1, out, w: self.w.clone() }
    }
}

// ---- init futures (factory leaves, transforms, config functions) -------------------------------

pub struct InitFut<T> {
    ix: usize,
    val: Option<Result<T, u32>>,
    w: W,
}

impl<T> Unpin for InitFut<T> {}

impl<T> Future for InitFut<T> {
    type Output = Result<T, u32>;
    fn poll(mut self: Pin<&mut Self>, cx: &mut Context<'_>) -> Poll<Self::Output> {
        let w = self.w.clone();
        let mut futs = w.futs.borrow_mut();
        let f = &mut futs[self.ix];
        if f.done {
            w.contract.borrow_mut().push(format!("item {} init future polled again after it completed", f.leaf));
            return Poll::Pending;
        }
        f.polled_round = Some(w.round.get());
        f.waker_ok = w.is_cur(cx.waker());
        if f.countdown == 0 {
            f.done = true;
            let leaf = f.leaf;
            let creator = f.creator;
            let mut v = self.val.take().unwrap();
            drop(futs);
            // a transform's construction future belongs to the transform object: it fails if the
            // object was shut down (dropped) while construction was still going on
            if let Some(item) = creator {
                if w.dropped_transforms.borrow().contains(&item) {
                    v = Err(SHUT_DOWN);
                }
            }
            w.ev(Ev::InitDone { leaf, ok: v.is_ok() });
            Poll::Ready(v)
        } else {
            f.waker = Some(cx.waker().clone());
            Poll::Pending
        }
    }
}

/// init error of a transform whose object was dropped while its construction future was running
pub const SHUT_DOWN: u32 = 0xDEAD_0001;

pub fn init_fut<T>(w: &W, item: usize, val: T) -> InitFut<T> {
    let (k, out) = w.script(item).init.unwrap_or((0, InitOut::Ok));
    let v = match out {
        InitOut::Ok => Ok(val),
        InitOut::Err(e) => Err(e),
    };
    let mut futs = w.futs.borrow_mut();
    futs.push(FutState {
        kind: FutKind::Init,
        leaf: item,
        countdown: k as u32,
        done: false,
        polled_round: None,
        waker_ok: false,
        waker: None,
        created_round: w.round.get(),
        fails: v.is_err(),
        needs_permit: false,
        creator: None,
    });
    InitFut { ix: futs.len() - 1, val: Some(v), w: w.clone() }
}

// ---- harness-owned erasure (so that the crate's wrappers only appear where the tree says so) ----

pub trait DynSvc {
    fn dyn_ready(&self, cx: &mut Context<'_>) -> Poll<Result<(), u32>>;
    fn dyn_call(&self, req: u32) -> BF<Result<u32, u32>>;
}

impl<S> DynSvc for S
where
    S: Service<u32, Response = u32, Error = u32>,
    S::Future: 'static,
{
    fn dyn_ready(&self, cx: &mut Context<'_>) -> Poll<Result<(), u32>> {
        self.poll_ready(cx)
    }
    fn dyn_call(&self, req: u32) -> BF<Result<u32, u32>> {
        Box::pin(self.call(req))
    }
}

#[derive(Clone)]
pub struct H(pub Rc<dyn DynSvc>);

impl Service<u32> for H {
    type Response = u32;
    type Error = u32;
    type Future = BF<Result<u32, u32>>;
    fn poll_ready(&self, cx: &mut Context<'_>) -> Poll<Result<(), u32>> {
        self.0.dyn_ready(cx)
    }
    fn call(&self, req: u32) -> Self::Future {
        self.0.dyn_call(req)
    }
}

pub fn erase<S>(s: S) -> H
where
    S: Service<u32, Response = u32, Error = u32> + 'static,
    S::Future: 'static,
{
    H(Rc::new(s))
}

pub trait DynFac {
    fn dyn_new(&self, cfg: u32) -> BF<Result<H, u32>>;
}

impl<SF> DynFac for SF
where
    SF: ServiceFactory<u32, Response = u32, Error = u32, Config = u32, InitError = u32>,
    SF::Service: 'static,
    SF::Future: 'static,
    <SF::Service as Service<u32>>::Future: 'static,
{
    fn dyn_new(&self, cfg: u32) -> BF<Result<H, u32>> {
        let f = self.new_service(cfg);
        Box::pin(async move { f.await.map(erase) })
    }
}

#[derive(Clone)]
pub struct HF(pub Rc<dyn DynFac>);

impl ServiceFactory<u32> for HF {
    type Response = u32;
    type Error = u32;
    type Config = u32;
    type Service = H;
    type InitError = u32;
    type Future = BF<Result<H, u32>>;
    fn new_service(&self, cfg: u32) -> Self::Future {
        self.0.dyn_new(cfg)
    }
}

pub fn erase_fac<SF>(sf: SF) -> HF
where
    SF: ServiceFactory<u32, Response = u32, Error = u32, Config = u32, InitError = u32> + 'static,
    SF::Service: 'static,
    SF::Future: 'static,
    <SF::Service as Service<u32>>::Future: 'static,
{
    HF(Rc::new(sf))
}

/// harness adaptor: a factory with `Config = ()` that feeds a constant to the inner factory
#[derive(Clone)]
pub struct FixCfg(pub HF, pub u32);

impl ServiceFactory<u32> for FixCfg {
    type Response = u32;
    type Error = u32;
    type Config = ();
    type Service = H;
    type InitError = u32;
    type Future = BF<Result<H, u32>>;
    fn new_service(&self, _: ()) -> Self::Future {
        self.0.new_service(self.1)
    }
}

/// factory leaf
#[derive(Clone)]
pub struct LeafFac {
    pub id: usize,
    pub w: W,
}

impl ServiceFactory<u32> for LeafFac {
    type Response = u32;
    type Error = u32;
    type Config = u32;
    type Service = LeafSvc;
    type InitError = u32;
    type Future = InitFut<LeafSvc>;
    fn new_service(&self, cfg: u32) -> Self::Future {
        self.w.ev(Ev::NewService { leaf: self.id, cfg });
        init_fut(&self.w, self.id, LeafSvc { id: self.id, w: self.w.clone() })
    }
}

/// service produced by the harness transform / config function: forwards readiness, pre-maps the request
pub struct PreSvc {
    pub inner: H,
    pub pre: Aff,
}

impl Service<u32> for PreSvc {
    type Response = u32;
    type Error = u32;
    type Future = BF<Result<u32, u32>>;
    fn poll_ready(&self, cx: &mut Context<'_>) -> Poll<Result<(), u32>> {
        self.inner.poll_ready(cx)
    }
    fn call(&self, req: u32) -> Self::Future {
        self.inner.call(self.pre.ap(req))
    }
}

pub struct Tr {
    pub item: usize,
    pub pre: Aff,
    pub w: W,
}

impl Transform<H, u32> for Tr {
    type Response = u32;
    type Error = u32;
    type Transform = PreSvc;
    type InitError = u32;
    type Future = InitFut<PreSvc>;
    fn new_transform(&self, service: H) -> Self::Future {
        self.w.ev(Ev::NewTransform { item: self.item });
        let f = init_fut(&self.w, self.item, PreSvc { inner: service, pre: self.pre });
        self.w.futs.borrow_mut()[f.ix].creator = Some(self.item);
        f
    }
}

impl Drop for Tr {
    fn drop(&mut self) {
        self.w.dropped_transforms.borrow_mut().push(self.item);
    }
}
