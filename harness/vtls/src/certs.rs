//! Test PKI generated once per process with rcgen: a CA, an untrusted second CA, and leaf
//! certificates with chosen subject alternative names.

use std::{net::IpAddr, sync::OnceLock};

use rcgen::{BasicConstraints, CertificateParams, CertifiedKey, IsCa, KeyPair, SanType};

pub struct Pki {
    pub ca: CertifiedKey,
    pub other_ca: CertifiedKey,
}

fn make_ca(name: &str) -> CertifiedKey {
    let mut p = CertificateParams::new(Vec::<String>::new()).unwrap();
    p.is_ca = IsCa::Ca(BasicConstraints::Unconstrained);
    p.distinguished_name.push(rcgen::DnType::CommonName, name);
    let key_pair = KeyPair::generate().unwrap();
    let cert = p.self_signed(&key_pair).unwrap();
    CertifiedKey { cert, key_pair }
}

pub fn pki() -> &'static Pki {
    static PKI: OnceLock<Pki> = OnceLock::new();
    PKI.get_or_init(|| {
        let _ = rustls::crypto::aws_lc_rs::default_provider().install_default();
        Pki { ca: make_ca("verif test CA"), other_ca: make_ca("verif untrusted CA") }
    })
}

/// leaf certificate (DER) + private key (PKCS#8 DER) for the given names, signed by the trusted or
/// the untrusted CA
pub fn leaf(dns: &[String], ips: &[IpAddr], trusted_issuer: bool) -> (Vec<u8>, Vec<u8>) {
    // generated certificates are cached per (names, issuer): key generation dominates otherwise
    static CACHE: std::sync::Mutex<Option<std::collections::HashMap<String, (Vec<u8>, Vec<u8>)>>> = std::sync::Mutex::new(None);
    let k = format!("{:?}|{:?}|{}", dns, ips, trusted_issuer);
    if let Some(v) = CACHE.lock().unwrap().get_or_insert_with(Default::default).get(&k) {
        return v.clone();
    }
    let v = leaf_uncached(dns, ips, trusted_issuer);
    CACHE.lock().unwrap().get_or_insert_with(Default::default).insert(k, v.clone());
    v
}

fn leaf_uncached(dns: &[String], ips: &[IpAddr], trusted_issuer: bool) -> (Vec<u8>, Vec<u8>) {
    let pki = pki();
    let mut p = CertificateParams::new(dns.to_vec()).unwrap();
    for ip in ips {
        p.subject_alt_names.push(SanType::IpAddress(*ip));
    }
    p.distinguished_name.push(rcgen::DnType::CommonName, "verif leaf");
    let key = KeyPair::generate().unwrap();
    let issuer = if trusted_issuer { &pki.ca } else { &pki.other_ca };
    let cert = p.signed_by(&key, &issuer.cert, &issuer.key_pair).unwrap();
    (cert.der().to_vec(), key.serialize_der())
}

pub fn ca_der() -> Vec<u8> {
    pki().ca.cert.der().to_vec()
}
