//! vcore — the runner shared by every check: seeding, sharding, classification counters,
//! shrinking + replay files, known findings, evidence, exit codes.
//!
//! A check is a set of *parts*.  Every part runs one `check_case(&Case) -> CaseResult` function over
//! cases that come from (a) the committed corpus, (b) an exhaustive enumeration, (c) a proptest
//! strategy (fixed number of cases, sharded over threads, seeded from VERIF_SEED) or (d) a libFuzzer
//! campaign (see `fuzz.rs`).  The deciding step is always `check_case`.

use std::{
    collections::{BTreeMap, HashSet},
    fmt::Debug,
    hash::{Hash, Hasher},
    panic::{catch_unwind, AssertUnwindSafe},
    path::{Path, PathBuf},
    sync::{
        atomic::{AtomicBool, AtomicU64, Ordering},
        Mutex,
    },
    time::Instant,
};

use proptest::{
    strategy::Strategy,
    test_runner::{Config, RngAlgorithm, TestCaseError, TestError, TestRng, TestRunner},
};
use serde::{de::DeserializeOwned, Deserialize, Serialize};
use serde_json::{json, Value};

pub mod fuzz;

pub const VERIF_DIR: &str = "/verif";

#[derive(Clone, Copy, Debug, PartialEq, Eq)]
pub enum Tier {
    Quick,
    Thorough,
}

impl Tier {
    pub fn name(self) -> &'static str {
        match self {
            Tier::Quick => "quick",
            Tier::Thorough => "thorough",
        }
    }
    /// scale a quick-tier amount of work to this tier
    pub fn scale(self, quick: u64, factor: u64) -> u64 {
        match self {
            Tier::Quick => quick,
            Tier::Thorough => quick * factor,
        }
    }
    pub fn pick<T>(self, quick: T, thorough: T) -> T {
        match self {
            Tier::Quick => quick,
            Tier::Thorough => thorough,
        }
    }
}

/// What a passing case reports back.
#[derive(Clone, Debug, Default)]
pub struct Obs {
    /// non-trivial by the property's stated rule
    pub nontrivial: bool,
    /// classification labels (generator health is judged on these)
    pub labels: Vec<&'static str>,
}

impl Obs {
    pub fn new() -> Self {
        Obs::default()
    }
    pub fn label(&mut self, l: &'static str) {
        if !self.labels.contains(&l) {
            self.labels.push(l);
        }
    }
    pub fn label_if(&mut self, c: bool, l: &'static str) {
        if c {
            self.label(l)
        }
    }
}

/// A failing case: human-readable message and a canonical signature used to match known findings.
#[derive(Clone, Debug)]
pub struct Fail {
    pub msg: String,
    pub sig: String,
}

impl Fail {
    pub fn new(sig: impl Into<String>, msg: impl Into<String>) -> Fail {
        Fail { msg: msg.into(), sig: sig.into() }
    }
}

pub type CaseResult = Result<Obs, Fail>;

#[macro_export]
macro_rules! vfail {
    ($sig:expr, $($arg:tt)*) => {
        return Err($crate::Fail::new($sig, format!($($arg)*)))
    };
}

#[macro_export]
macro_rules! vensure {
    ($cond:expr, $sig:expr, $($arg:tt)*) => {
        if !($cond) {
            return Err($crate::Fail::new($sig, format!($($arg)*)));
        }
    };
}

#[derive(Clone, Debug, Deserialize)]
pub struct KnownEntry {
    pub status: String, // "known" | "fixed"
    pub property: String,
    pub signature: String,
    pub what: String,
    #[serde(default)]
    pub commit: Option<String>,
}

#[derive(Default, Debug)]
struct Stats {
    evaluations: u64,
    nontrivial_total: u64,
    distinct: HashSet<u64>,
    labels: BTreeMap<&'static str, u64>,
    samples: Vec<Value>,
    excluded_known: u64,
}

impl Stats {
    fn merge(&mut self, o: Stats) {
        self.evaluations += o.evaluations;
        self.nontrivial_total += o.nontrivial_total;
        self.distinct.extend(o.distinct);
        for (k, v) in o.labels {
            *self.labels.entry(k).or_default() += v;
        }
        for s in o.samples {
            if self.samples.len() < 6 {
                self.samples.push(s);
            }
        }
        self.excluded_known += o.excluded_known;
    }
}

#[derive(Debug)]
pub struct PartReport {
    pub name: String,
    pub kind: &'static str,
    pub evaluations: u64,
    pub distinct_nontrivial: u64,
    pub nontrivial_total: u64,
    pub labels: BTreeMap<String, u64>,
    pub samples: Vec<Value>,
    pub exhaustive: bool,
    pub excluded_known: u64,
    pub wall_s: f64,
    pub rule: String,
    pub extra: Value,
}

#[derive(Debug, Clone)]
pub struct Violation {
    pub part: String,
    pub replay: PathBuf,
    pub msg: String,
}

/// Per-part parameters for generated runs.
pub struct Part<'a> {
    pub name: &'a str,
    /// how cases are generated and what makes one non-trivial (goes into the evidence)
    pub rule: &'a str,
    /// total number of generated cases (split over the shards)
    pub cases: u64,
    /// label floors: (label, minimal fraction of evaluated cases); below ⇒ generator health failure
    pub floors: &'a [(&'a str, f64)],
    pub max_shrink_iters: u32,
    /// number of shards (threads); 0 = ctx default
    pub shards: usize,
}

impl<'a> Part<'a> {
    pub fn new(name: &'a str, rule: &'a str, cases: u64) -> Self {
        Part { name, rule, cases, floors: &[], max_shrink_iters: 20_000, shards: 0 }
    }
    pub fn floors(mut self, f: &'a [(&'a str, f64)]) -> Self {
        self.floors = f;
        self
    }
    pub fn shards(mut self, n: usize) -> Self {
        self.shards = n;
        self
    }
    pub fn shrink_iters(mut self, n: u32) -> Self {
        self.max_shrink_iters = n;
        self
    }
}

pub struct Ctx {
    pub property: String,
    pub tier: Tier,
    pub seed: u64,
    pub shards: usize,
    pub verbose: bool,
    known: Vec<KnownEntry>,
    parts: Mutex<Vec<PartReport>>,
    violations: Mutex<Vec<Violation>>,
    known_hits: Mutex<BTreeMap<String, u64>>,
    inconclusive: Mutex<Vec<String>>,
    assumptions: Mutex<Vec<String>>,
    start: Instant,
    replay_counter: AtomicU64,
    /// set in the process of a second build of the harness (VERIF_VARIANT, e.g. "nodebug": built
    /// without debug assertions and overflow checks): no evidence file, a summary line instead
    pub variant: Option<String>,
}

fn fnv64(data: &[u8], mut h: u64) -> u64 {
    for b in data {
        h ^= *b as u64;
        h = h.wrapping_mul(0x100000001b3);
    }
    h
}

fn splitmix(x: &mut u64) -> u64 {
    *x = x.wrapping_add(0x9E3779B97F4A7C15);
    let mut z = *x;
    z = (z ^ (z >> 30)).wrapping_mul(0xBF58476D1CE4E5B9);
    z = (z ^ (z >> 27)).wrapping_mul(0x94D049BB133111EB);
    z ^ (z >> 31)
}

pub fn derive_seed(seed: u64, property: &str, part: &str, shard: u64) -> [u8; 32] {
    let mut h = fnv64(property.as_bytes(), 0xcbf29ce484222325);
    h = fnv64(b"/", h);
    h = fnv64(part.as_bytes(), h);
    let mut s = h ^ seed.wrapping_mul(0xD6E8FEB86659FD93) ^ (shard.wrapping_mul(0xA24BAED4963EE407));
    let mut out = [0u8; 32];
    for i in 0..4 {
        out[i * 8..i * 8 + 8].copy_from_slice(&splitmix(&mut s).to_le_bytes());
    }
    out
}

pub fn hash_str(s: &str) -> u64 {
    let mut h = std::collections::hash_map::DefaultHasher::new();
    s.hash(&mut h);
    h.finish()
}

fn truncate_sample(v: Value) -> Value {
    let s = v.to_string();
    if s.len() > 3000 {
        let mut end = 3000;
        while !s.is_char_boundary(end) {
            end -= 1;
        }
        json!({ "truncated_json": format!("{}…", &s[..end]), "full_len": s.len() })
    } else {
        v
    }
}

static QUIET_PANICS: AtomicBool = AtomicBool::new(false);

/// Install a panic hook that stays silent for panics raised inside cases (they are caught and
/// judged by the oracle); `VERIF_VERBOSE=1` keeps the default hook.
pub fn install_quiet_panic_hook() {
    if std::env::var("VERIF_VERBOSE").is_ok() {
        return;
    }
    QUIET_PANICS.store(true, Ordering::SeqCst);
    let default = std::panic::take_hook();
    std::panic::set_hook(Box::new(move |info| {
        if !QUIET_PANICS.load(Ordering::SeqCst) {
            default(info);
        }
    }));
}

pub fn panic_message(p: &(dyn std::any::Any + Send)) -> String {
    if let Some(s) = p.downcast_ref::<&str>() {
        s.to_string()
    } else if let Some(s) = p.downcast_ref::<String>() {
        s.clone()
    } else {
        "<non-string panic payload>".into()
    }
}

impl Ctx {
    pub fn new(property: &str, tier: Tier, seed: u64) -> Ctx {
        let known_path = Path::new(VERIF_DIR).join("known_findings.json");
        let known: Vec<KnownEntry> = std::fs::read_to_string(&known_path)
            .ok()
            .and_then(|s| serde_json::from_str::<Value>(&s).ok())
            .and_then(|v| v.get("findings").cloned())
            .and_then(|v| serde_json::from_value(v).ok())
            .unwrap_or_default();
        let shards = std::env::var("VERIF_SHARDS")
            .ok()
            .and_then(|s| s.parse().ok())
            .unwrap_or_else(|| {
                std::thread::available_parallelism().map(|n| n.get()).unwrap_or(8).clamp(2, 12)
            });
        Ctx {
            property: property.to_string(),
            tier,
            seed,
            shards,
            verbose: std::env::var("VERIF_VERBOSE").is_ok(),
            known,
            parts: Mutex::new(vec![]),
            violations: Mutex::new(vec![]),
            known_hits: Mutex::new(BTreeMap::new()),
            inconclusive: Mutex::new(vec![]),
            assumptions: Mutex::new(vec![]),
            start: Instant::now(),
            replay_counter: AtomicU64::new(0),
            variant: std::env::var("VERIF_VARIANT").ok().filter(|v| !v.is_empty()),
        }
    }

    /// Run the same check in a second build of the harness (`exe`, built with another profile) as a
    /// child process and fold what it reports into this run: its violations are violations (their
    /// replay files name the build), its case counts become one more part of the evidence.
    pub fn run_variant(&self, exe: &str, label: &str, what: &str) {
        if self.variant.is_some() {
            return;
        }
        if !self.part_enabled(&format!("all-parts@{label}")) {
            return;
        }
        let t0 = Instant::now();
        if !Path::new(exe).exists() {
            self.inconclusive(format!("the {label} build of the harness ({exe}) does not exist"));
            return;
        }
        let out = std::process::Command::new(exe)
            .args([self.property.as_str(), self.tier.name()])
            .env("VERIF_VARIANT", label)
            .env("VERIF_SEED", self.seed.to_string())
            .stderr(std::process::Stdio::inherit())
            .output();
        let out = match out {
            Ok(o) => o,
            Err(e) => {
                self.inconclusive(format!("the {label} build of the harness could not be started: {e}"));
                return;
            }
        };
        let text = String::from_utf8_lossy(&out.stdout).to_string();
        let mut summary: Option<Value> = None;
        for line in text.lines() {
            if let Some(rest) = line.strip_prefix("VARIANT-SUMMARY ") {
                summary = serde_json::from_str(rest).ok();
            } else if line.starts_with("VIOLATION ") || line.starts_with("KNOWN-FINDING") {
                println!("{line}");
            }
        }
        let Some(sum) = summary else {
            self.inconclusive(format!("the {label} build of the harness ended without a summary (exit status {:?})", out.status.code()));
            return;
        };
        let name = format!("all-parts@{label}");
        for v in sum["violations"].as_array().cloned().unwrap_or_default() {
            self.violations.lock().unwrap().push(Violation {
                part: format!("{}@{label}", v["part"].as_str().unwrap_or("?")),
                replay: PathBuf::from(v["replay"].as_str().unwrap_or("")),
                msg: v["msg"].as_str().unwrap_or("").to_string(),
            });
        }
        for i in sum["inconclusive"].as_array().cloned().unwrap_or_default() {
            self.inconclusive(format!("{label} build: {}", i.as_str().unwrap_or("?")));
        }
        let rep = PartReport {
            name: name.clone(),
            kind: "second-build",
            evaluations: sum["evaluations"].as_u64().unwrap_or(0),
            distinct_nontrivial: sum["distinct_nontrivial"].as_u64().unwrap_or(0),
            nontrivial_total: sum["nontrivial_total"].as_u64().unwrap_or(0),
            labels: BTreeMap::new(),
            samples: vec![],
            exhaustive: false,
            excluded_known: 0,
            wall_s: t0.elapsed().as_secs_f64(),
            rule: format!("every part listed above except corpus-guided fuzzing, run once more by a second build of the harness and of the crates under test: {what}; same generators, same seed, same oracles"),
            extra: sum["parts"].clone(),
        };
        eprintln!("[{}] part {:<22} {:<10} evals={:<9} distinct={:<9} {:.1}s", self.property, name, "2nd-build", rep.evaluations, rep.distinct_nontrivial, rep.wall_s);
        self.parts.lock().unwrap().push(rep);
    }

    /// `VERIF_PARTS=a,b` restricts a run to the parts whose name contains one of the substrings
    /// (debugging and sensitivity testing of a single part; never used by the registered commands).
    pub fn part_enabled(&self, name: &str) -> bool {
        match std::env::var("VERIF_PARTS") {
            Ok(f) if !f.trim().is_empty() => f.split(',').any(|p| name.contains(p.trim())),
            _ => true,
        }
    }

    pub fn assume(&self, text: &str) {
        self.assumptions.lock().unwrap().push(text.to_string());
    }

    pub fn inconclusive(&self, why: impl Into<String>) {
        let why = why.into();
        eprintln!("[{}] INCONCLUSIVE: {}", self.property, why);
        self.inconclusive.lock().unwrap().push(why);
    }

    pub fn has_violation(&self) -> bool {
        !self.violations.lock().unwrap().is_empty()
    }

    fn known_match(&self, sig: &str) -> Option<&KnownEntry> {
        self.known
            .iter()
            .find(|k| k.status == "known" && k.property == self.property && k.signature == sig)
    }

    /// Judge one case: catches panics that escape `check`, applies the known-findings filter.
    /// Returns Ok(Some(obs)) = pass, Ok(None) = excluded known finding, Err = violation.
    fn judge<C>(&self, check: &(dyn Fn(&C) -> CaseResult + Sync), case: &C) -> Result<Option<Obs>, Fail> {
        let r = catch_unwind(AssertUnwindSafe(|| check(case)));
        let r = match r {
            Ok(r) => r,
            Err(p) => Err(Fail::new("escaped-panic", format!("panic escaped the case: {}", panic_message(&*p)))),
        };
        match r {
            Ok(o) => Ok(Some(o)),
            Err(f) => {
                if f.sig.starts_with("harness/") {
                    // the harness could not run the case (resource exhaustion, environment):
                    // inconclusive, never a violation
                    let mut inc = self.inconclusive.lock().unwrap();
                    if inc.len() < 5 {
                        eprintln!("[{}] INCONCLUSIVE: {} ({})", self.property, f.msg, f.sig);
                        inc.push(format!("{}: {}", f.sig, f.msg));
                    }
                    return Ok(None);
                }
                if self.known_match(&f.sig).is_some() {
                    *self.known_hits.lock().unwrap().entry(f.sig.clone()).or_default() += 1;
                    Ok(None)
                } else {
                    Err(f)
                }
            }
        }
    }

    fn record<C: Serialize>(stats: &mut Stats, case: &C, obs: &Obs, hash_distinct: bool) {
        stats.evaluations += 1;
        for l in &obs.labels {
            *stats.labels.entry(l).or_default() += 1;
        }
        if obs.nontrivial {
            stats.nontrivial_total += 1;
            let want_sample = stats.samples.len() < 2
                || (stats.samples.len() < 5 && stats.nontrivial_total % 997 == 0);
            if hash_distinct || want_sample {
                let v = serde_json::to_value(case).unwrap_or(Value::Null);
                if hash_distinct {
                    stats.distinct.insert(hash_str(&v.to_string()));
                }
                if want_sample {
                    stats.samples.push(truncate_sample(v));
                }
            }
        }
    }

    fn write_replay<C: Serialize>(&self, part: &str, case: &C, fail: &Fail, origin: &str) -> PathBuf {
        let dir = Path::new(VERIF_DIR).join("replays");
        let _ = std::fs::create_dir_all(&dir);
        let v = json!({
            "property": self.property,
            "part": part,
            "case": serde_json::to_value(case).unwrap_or(Value::Null),
            "message": fail.msg,
            "signature": fail.sig,
            "seed": self.seed,
            "origin": origin,
            "variant": self.variant,
        });
        let h = hash_str(&v["case"].to_string());
        let n = self.replay_counter.fetch_add(1, Ordering::SeqCst);
        let path = dir.join(format!("{}-{}-{:016x}-{}.json", self.property, part, h, n));
        let _ = std::fs::write(&path, serde_json::to_string_pretty(&v).unwrap());
        path
    }

    fn report_violation<C: Serialize>(&self, part: &str, case: &C, fail: &Fail, origin: &str) {
        let mut vs = self.violations.lock().unwrap();
        // the same defect is usually found by several shards: report at most 3 per part
        if vs.iter().filter(|v| v.part == part).count() >= 3 {
            return;
        }
        let path = self.write_replay(part, case, fail, origin);
        println!("VIOLATION property={} replay={}", self.property, path.display());
        eprintln!("[{}] part {}: {} (signature {})", self.property, part, fail.msg, fail.sig);
        vs.push(Violation { part: part.to_string(), replay: path, msg: fail.msg.clone() });
    }

    fn finish_part(&self, spec_name: &str, kind: &'static str, rule: &str, stats: Stats, exhaustive: bool,
                   distinct_override: Option<u64>, floors: &[(&str, f64)], t0: Instant, extra: Value) {
        let distinct = distinct_override.unwrap_or(stats.distinct.len() as u64);
        let ev = stats.evaluations.max(1) as f64;
        let part_failed = self.violations.lock().unwrap().iter().any(|v| v.part == spec_name);
        for (label, floor) in floors.iter().filter(|_| !part_failed) {
            let n = stats.labels.get(label).copied().unwrap_or(0) as f64;
            if std::env::var("VERIF_FLOORS").is_ok() {
                // maintenance aid: how far each floor is from what the generator delivers
                eprintln!("FLOOR {} {} {} floor={:.4} measured={:.4} ratio={:.2}", self.property, spec_name, label, floor, n / ev, (n / ev) / floor.max(1e-9));
            }
            if n / ev < *floor {
                self.inconclusive(format!(
                    "generator health: part {} label '{}' at {:.2}% < floor {:.2}% ({} cases)",
                    spec_name, label, 100.0 * n / ev, 100.0 * floor, stats.evaluations
                ));
            }
        }
        let rep = PartReport {
            name: spec_name.to_string(),
            kind,
            evaluations: stats.evaluations,
            distinct_nontrivial: distinct,
            nontrivial_total: stats.nontrivial_total,
            labels: stats.labels.iter().map(|(k, v)| (k.to_string(), *v)).collect(),
            samples: stats.samples,
            exhaustive,
            excluded_known: stats.excluded_known,
            wall_s: t0.elapsed().as_secs_f64(),
            rule: rule.to_string(),
            extra,
        };
        eprintln!(
            "[{}] part {:<22} {:<10} evals={:<9} nontrivial={:<9} distinct={:<9} {:.1}s labels={:?}",
            self.property, rep.name, kind, rep.evaluations, rep.nontrivial_total, rep.distinct_nontrivial,
            rep.wall_s, rep.labels
        );
        self.parts.lock().unwrap().push(rep);
    }

    /// Replay the committed corpus files `corpus/<ID>/<part>*.json` through `check`.
    pub fn run_corpus<C>(&self, part: &str, check: impl Fn(&C) -> CaseResult + Sync)
    where
        C: Serialize + DeserializeOwned + Debug,
    {
        if !self.part_enabled(&format!("{part}/corpus")) {
            return;
        }
        let t0 = Instant::now();
        let dir = Path::new(VERIF_DIR).join("corpus").join(&self.property);
        let mut files: Vec<PathBuf> = std::fs::read_dir(&dir)
            .map(|rd| rd.filter_map(|e| e.ok().map(|e| e.path())).collect())
            .unwrap_or_default();
        files.sort();
        let mut stats = Stats::default();
        for f in files {
            let Ok(text) = std::fs::read_to_string(&f) else { continue };
            let Ok(v) = serde_json::from_str::<Value>(&text) else { continue };
            // "ops" also replays files recorded by "ops-exhaustive" / "ops/libfuzzer" (same case type)
            if !v.get("part").and_then(|p| p.as_str()).map(|p| p.starts_with(part)).unwrap_or(false) {
                continue;
            }
            let case: C = match serde_json::from_value(v["case"].clone()) {
                Ok(c) => c,
                Err(e) => {
                    self.inconclusive(format!("corpus file {} does not parse: {}", f.display(), e));
                    continue;
                }
            };
            match self.judge(&check, &case) {
                Ok(Some(obs)) => Self::record(&mut stats, &case, &obs, true),
                Ok(None) => stats.excluded_known += 1,
                Err(fail) => self.report_violation(part, &case, &fail, &format!("corpus:{}", f.display())),
            }
        }
        if stats.evaluations > 0 || stats.excluded_known > 0 {
            self.finish_part(&format!("{part}/corpus"), "corpus", "committed regression corpus (shrunk reproductions of defects and sensitivity mutants, golden cases)", stats, false, None, &[], t0, Value::Null);
        }
    }

    /// Exhaustive enumeration. `enumerate(shard, nshards, f)` must call `f` for every case of the
    /// shard's slice of the space and stop when `f` returns false.
    pub fn run_enum<C>(
        &self,
        part: Part<'_>,
        enumerate: impl Fn(usize, usize, &mut dyn FnMut(&C) -> bool) + Sync,
        check: impl Fn(&C) -> CaseResult + Sync,
    ) where
        C: Serialize + Debug + Clone + Send,
    {
        if !self.part_enabled(part.name) {
            return;
        }
        let t0 = Instant::now();
        let nshards = if part.shards == 0 { self.shards } else { part.shards };
        let abort = AtomicBool::new(false);
        let merged = Mutex::new(Stats::default());
        let complete = AtomicBool::new(true);
        std::thread::scope(|sc| {
            for shard in 0..nshards {
                let (abort, merged, complete, enumerate, check, part) = (&abort, &merged, &complete, &enumerate, &check, &part);
                std::thread::Builder::new()
                    .stack_size(16 << 20)
                    .spawn_scoped(sc, move || {
                        let mut stats = Stats::default();
                        let mut failure: Option<(C, Fail)> = None;
                        enumerate(shard, nshards, &mut |case: &C| {
                            if abort.load(Ordering::Relaxed) {
                                complete.store(false, Ordering::Relaxed);
                                return false;
                            }
                            match self.judge(check, case) {
                                Ok(Some(obs)) => {
                                    // distinct by construction of the enumeration
                                    Self::record(&mut stats, case, &obs, false);
                                    true
                                }
                                Ok(None) => {
                                    stats.excluded_known += 1;
                                    true
                                }
                                Err(f) => {
                                    failure = Some((case.clone(), f));
                                    abort.store(true, Ordering::Relaxed);
                                    complete.store(false, Ordering::Relaxed);
                                    false
                                }
                            }
                        });
                        if let Some((case, f)) = failure {
                            self.report_violation(part.name, &case, &f, "enumeration");
                        }
                        merged.lock().unwrap().merge(stats);
                    })
                    .unwrap();
            }
        });
        let stats = merged.into_inner().unwrap();
        let nt = stats.nontrivial_total;
        self.finish_part(part.name, "exhaustive", part.rule, stats, complete.load(Ordering::Relaxed), Some(nt), part.floors, t0, Value::Null);
    }

    /// Random generation with proptest: `part.cases` cases split over the shards, each shard an
    /// independent TestRunner seeded from (VERIF_SEED, property, part, shard).
    pub fn run_random<C, S>(
        &self,
        part: Part<'_>,
        strategy: impl Fn() -> S + Sync,
        check: impl Fn(&C) -> CaseResult + Sync,
    ) where
        S: Strategy<Value = C>,
        C: Serialize + Debug + Clone + Send,
    {
        if !self.part_enabled(part.name) {
            return;
        }
        let t0 = Instant::now();
        let nshards = (if part.shards == 0 { self.shards } else { part.shards }).max(1);
        let per_shard = part.cases.div_ceil(nshards as u64).max(1);
        let merged = Mutex::new(Stats::default());
        // once a shard has reported a violation the others stop exploring (a broken tree must not
        // make the check run for as long as every shard needs to shrink its own copy of the defect)
        let part_failed = AtomicBool::new(false);
        std::thread::scope(|sc| {
            for shard in 0..nshards {
                let (merged, strategy, check, part, part_failed) = (&merged, &strategy, &check, &part, &part_failed);
                std::thread::Builder::new()
                    .stack_size(16 << 20)
                    .spawn_scoped(sc, move || {
                        let config = Config {
                            cases: per_shard as u32,
                            failure_persistence: None,
                            max_shrink_iters: part.max_shrink_iters,
                            max_global_rejects: 1 << 20,
                            max_local_rejects: 1 << 20,
                            ..Config::default()
                        };
                        let rng = TestRng::from_seed(
                            RngAlgorithm::ChaCha,
                            &derive_seed(self.seed, &self.property, part.name, shard as u64),
                        );
                        let mut runner = TestRunner::new_with_rng(config, rng);
                        let stats = std::cell::RefCell::new(Stats::default());
                        let failed = std::cell::Cell::new(false);
                        let last_fail = std::cell::RefCell::new(None::<String>);
                        let strat = strategy();
                        let res = runner.run(&strat, |case| {
                            if part_failed.load(Ordering::Relaxed) && !failed.get() {
                                return Ok(());
                            }
                            match self.judge(check, &case) {
                            Ok(Some(obs)) => {
                                if !failed.get() {
                                    Self::record(&mut stats.borrow_mut(), &case, &obs, true);
                                }
                                Ok(())
                            }
                            Ok(None) => {
                                if !failed.get() {
                                    stats.borrow_mut().excluded_known += 1;
                                }
                                Ok(())
                            }
                            Err(f) => {
                                failed.set(true);
                                *last_fail.borrow_mut() = Some(format!("{} ({})", f.msg, f.sig));
                                Err(TestCaseError::fail(f.msg))
                            }
                        }});
                        match res {
                            Ok(()) => {}
                            Err(TestError::Fail(_, case)) => {
                                // re-judge the shrunk case to obtain its own message/signature
                                let fail = match self.judge(check, &case) {
                                    Err(f) => f,
                                    _ => Fail::new("unstable", "shrunk case passed when re-run (non-deterministic case)"),
                                };
                                if fail.sig == "unstable" {
                                    self.inconclusive(format!("part {}: failure did not reproduce on re-run of the shrunk case {:?}; last failure seen while shrinking: {:?}", part.name, case, last_fail.borrow()));
                                } else {
                                    self.report_violation(part.name, &case, &fail, &format!("proptest shard {shard}"));
                                    part_failed.store(true, Ordering::Relaxed);
                                }
                            }
                            Err(TestError::Abort(why)) => {
                                self.inconclusive(format!("part {} shard {}: proptest aborted: {}", part.name, shard, why));
                            }
                        }
                        merged.lock().unwrap().merge(stats.into_inner());
                    })
                    .unwrap();
            }
        });
        let stats = merged.into_inner().unwrap();
        self.finish_part(part.name, "generated", part.rule, stats, false, None, part.floors, t0, Value::Null);
    }

    /// Add a report produced elsewhere (fuzz campaign, multi-process end-to-end runs).
    pub fn add_part(&self, rep: PartReport) {
        eprintln!(
            "[{}] part {:<22} {:<10} evals={:<9} nontrivial={:<9} distinct={:<9} {:.1}s",
            self.property, rep.name, rep.kind, rep.evaluations, rep.nontrivial_total, rep.distinct_nontrivial, rep.wall_s
        );
        self.parts.lock().unwrap().push(rep);
    }

    /// Report a violation found by machinery outside run_* (e.g. a converted fuzz artifact).
    pub fn violation_external<C: Serialize>(&self, part: &str, case: &C, fail: &Fail, origin: &str) {
        if self.known_match(&fail.sig).is_some() {
            *self.known_hits.lock().unwrap().entry(fail.sig.clone()).or_default() += 1;
            return;
        }
        self.report_violation(part, case, fail, origin);
    }

    /// Re-run a replay file through `check` with no generator involved; prints the verdict.
    /// Returns the process exit code.
    pub fn replay<C>(&self, v: &Value, check: impl Fn(&C) -> CaseResult) -> i32
    where
        C: DeserializeOwned + Debug,
    {
        let case: C = match serde_json::from_value(v["case"].clone()) {
            Ok(c) => c,
            Err(e) => {
                eprintln!("replay file does not parse as a case of this part: {e}");
                return 2;
            }
        };
        eprintln!("replaying case: {:?}", case);
        let r = catch_unwind(AssertUnwindSafe(|| check(&case)));
        match r {
            Ok(Ok(obs)) => {
                println!("REPLAY property={} verdict=pass nontrivial={} labels={:?}", self.property, obs.nontrivial, obs.labels);
                0
            }
            Ok(Err(f)) => {
                println!("REPLAY property={} verdict=FAIL signature={} message={}", self.property, f.sig, f.msg);
                1
            }
            Err(p) => {
                println!("REPLAY property={} verdict=FAIL signature=escaped-panic message={}", self.property, panic_message(&*p));
                1
            }
        }
    }

    /// Write the evidence file, print KNOWN-FINDING lines, return the exit code.
    pub fn finish(self, level_rule: &str) -> i32 {
        let parts = self.parts.into_inner().unwrap();
        let violations = self.violations.into_inner().unwrap();
        let inconclusive = self.inconclusive.into_inner().unwrap();
        let known_hits = self.known_hits.into_inner().unwrap();
        let evaluations: u64 = parts.iter().map(|p| p.evaluations).sum();
        let distinct: u64 = parts.iter().map(|p| p.distinct_nontrivial).sum();
        let mut samples = vec![];
        for p in &parts {
            for s in p.samples.iter().take(3) {
                samples.push(json!({"part": p.name, "case": s}));
            }
        }
        let exhaustive_parts: Vec<&str> = parts.iter().filter(|p| p.exhaustive).map(|p| p.name.as_str()).collect();
        let parts_json: Vec<Value> = parts
            .iter()
            .map(|p| {
                json!({
                    "name": p.name, "kind": p.kind, "evaluations": p.evaluations,
                    "distinct_nontrivial": p.distinct_nontrivial, "nontrivial_total": p.nontrivial_total,
                    "labels": p.labels, "exhaustive": p.exhaustive, "excluded_known": p.excluded_known,
                    "wall_s": (p.wall_s * 1000.0).round() / 1000.0, "rule": p.rule, "extra": p.extra,
                })
            })
            .collect();
        for k in self.known.iter().filter(|k| k.status == "known" && k.property == self.property) {
            println!("KNOWN-FINDING: property={} {} [signature {}; {} matching cases excluded this run]",
                     self.property, k.what, k.signature, known_hits.get(&k.signature).copied().unwrap_or(0));
        }
        let wall = self.start.elapsed().as_secs_f64();
        let ev = json!({
            "property_id": self.property,
            "tier": self.tier.name(),
            "seed": self.seed,
            "level": "exploration",
            "coverage": {
                "evaluations": evaluations,
                "distinct_nontrivial": distinct,
                "rule": level_rule,
                "samples": samples,
                "exhaustive": false,
                "exhaustive_parts": exhaustive_parts,
                "parts": parts_json,
                "excluded_known": known_hits,
                "inconclusive": inconclusive,
                "violation_replays": violations.iter().map(|v| v.replay.display().to_string()).collect::<Vec<_>>(),
            },
            "assumptions": self.assumptions.into_inner().unwrap(),
            "wall_s": (wall * 1000.0).round() / 1000.0,
            "violations": violations.len(),
        });
        if let Some(label) = &self.variant {
            // a second build reports to the run that started it
            let sum = json!({
                "evaluations": evaluations,
                "distinct_nontrivial": distinct,
                "nontrivial_total": parts.iter().map(|p| p.nontrivial_total).sum::<u64>(),
                "violations": violations.iter().map(|v| json!({"part": v.part, "replay": v.replay.display().to_string(), "msg": v.msg})).collect::<Vec<_>>(),
                "inconclusive": inconclusive,
                "parts": parts.iter().map(|p| json!({"name": p.name, "evaluations": p.evaluations, "distinct_nontrivial": p.distinct_nontrivial})).collect::<Vec<_>>(),
            });
            println!("VARIANT-SUMMARY {}", sum);
            eprintln!("[{}@{}] {} cases, {} violation(s)", self.property, label, evaluations, violations.len());
            return if !violations.is_empty() { 1 } else if !inconclusive.is_empty() { 2 } else { 0 };
        }
        let dir = Path::new(VERIF_DIR).join("evidence");
        let _ = std::fs::create_dir_all(&dir);
        let path = dir.join(format!("{}.json", self.property));
        if let Err(e) = std::fs::write(&path, serde_json::to_string_pretty(&ev).unwrap()) {
            eprintln!("cannot write evidence {}: {e}", path.display());
            return 2;
        }
        if !violations.is_empty() {
            eprintln!("[{}] {} violation(s); evidence {}", self.property, violations.len(), path.display());
            return 1;
        }
        if !inconclusive.is_empty() || distinct < 2 {
            if distinct < 2 {
                eprintln!("[{}] INCONCLUSIVE: fewer than two distinct non-trivial cases", self.property);
            }
            return 2;
        }
        eprintln!("[{}] held on {} cases ({} distinct non-trivial) in {:.1}s; evidence {}", self.property, evaluations, distinct, wall, path.display());
        0
    }
}

/// monotone index mapping for shrinking-friendly selections: maps a u16 onto 0..n
pub fn pick(ix: u16, n: usize) -> usize {
    ((ix as usize) * n) >> 16
}


/// Wrapper for objects of the code under test that a check keeps across steps: dropped normally,
/// but leaked when the thread is already unwinding, so that a destructor of the code under test
/// that panics as well cannot turn a reported failure into a process abort (double panic).
pub struct Sut<T>(std::mem::ManuallyDrop<T>);

impl<T> Sut<T> {
    pub fn new(t: T) -> Self {
        Sut(std::mem::ManuallyDrop::new(t))
    }

    /// hand the object back (it is dropped like any other value from then on)
    pub fn into_inner(mut self) -> T {
        // SAFETY: the value is taken exactly once and `self` is forgotten, so `Drop` never sees it
        let t = unsafe { std::mem::ManuallyDrop::take(&mut self.0) };
        std::mem::forget(self);
        t
    }
}

impl<T> Drop for Sut<T> {
    fn drop(&mut self) {
        if !std::thread::panicking() {
            // SAFETY: dropped exactly once, here
            unsafe { std::mem::ManuallyDrop::drop(&mut self.0) }
        }
    }
}

impl<T> std::ops::Deref for Sut<T> {
    type Target = T;
    fn deref(&self) -> &T {
        &self.0
    }
}

impl<T> std::ops::DerefMut for Sut<T> {
    fn deref_mut(&mut self) -> &mut T {
        &mut self.0
    }
}
