//! C14 — Framed writes are lossless, ordered and bounded, and close flushes.
//!
//! Oracle: invariants over the history.  `sent` = concatenation of the encodings of the items
//! accepted by start_send/write (reference encoder written here), `wire` = bytes the scripted
//! transport accepted.  Every result of poll_ready/poll_flush/poll_close must be *justified* by what
//! the transport did during that very call, and Ready(Ok) from flush/close requires wire == sent.

use std::{
    io,
    panic::{catch_unwind, AssertUnwindSafe},
    pin::Pin,
    task::{Context, Poll},
};

use actix_codec::Framed;
use futures_sink::Sink;
use proptest::prelude::*;
use serde::{Deserialize, Serialize};
use serde_json::Value;
use vcore::{vensure, vfail, CaseResult, Ctx, Obs, Part};

use crate::{
    c17::count_waker,
    mockio::{kind_name, Ev, FStep, LenU16, MockIo, WStep},
};

const HW: usize = 8 * 1024;

#[derive(Clone, Copy, Debug, Serialize, Deserialize, PartialEq)]
pub enum Op {
    /// Sink protocol: poll_ready, and start_send(item of `size` bytes) if it answered Ready(Ok)
    Send { size: u16, fill: u8 },
    /// Framed::write directly (no readiness check), as actix-web's dispatcher does
    Write { size: u16, fill: u8 },
    PollReady,
    PollFlush,
    PollClose,
    /// rebuild the Framed through one of its conversions, all of which carry both buffers and the
    /// state over: 0 = into_parts + from_parts, 1 = into_map_io(identity), 2 = into_map_codec
    /// (identity), 3 = replace_codec(an equal codec)
    Convert { how: u8 },
    /// an item the encoder refuses (start_send / write must fail and leave everything accepted
    /// before untouched); `direct`: through Framed::write instead of the Sink protocol
    SendRejected { direct: bool },
    /// the read half is polled to its end (the peer has closed its sending direction); the write
    /// half goes on as before
    ReadToEof,
    /// a frame is put into the write buffer by hand while the Framed is taken apart (the
    /// hand-over pattern: `into_parts`, append to `FramedParts::write_buf`, `from_parts`; with
    /// `fresh` the parts are rebuilt with `FramedParts::new` + the old buffers): those bytes are
    /// accepted bytes like any other
    InjectWrite { size: u16, fill: u8, fresh: bool },
}

#[derive(Clone, Debug, Serialize, Deserialize, PartialEq)]
pub struct Case {
    pub ops: Vec<Op>,
    pub wscript: Vec<WStep>,
    pub fscript: Vec<FStep>,
    pub sscript: Vec<FStep>,
    /// once `wscript` is used up the transport accepts this many bytes per write (0 = all): a
    /// slow peer that makes one flush take hundreds of writes
    #[serde(default)]
    pub trickle: u16,
}

fn item(size: u16, fill: u8) -> Vec<u8> {
    (0..size as usize).map(|i| fill.wrapping_add(i as u8)).collect()
}

fn ref_encode(sent: &mut Vec<u8>, it: &[u8]) {
    sent.extend_from_slice(&(it.len() as u16).to_be_bytes());
    sent.extend_from_slice(it);
}

pub fn check_case(c: &Case) -> CaseResult {
    match catch_unwind(AssertUnwindSafe(|| check_inner(c))) {
        Ok(r) => r,
        Err(p) => vfail!("C14/panic", "Framed panicked: {}", vcore::panic_message(&*p)),
    }
}

#[derive(Debug, PartialEq)]
enum Res {
    Ok,
    Pending,
    Err(String),
}

fn conv(p: Poll<Result<(), io::Error>>) -> Res {
    match p {
        Poll::Ready(Ok(())) => Res::Ok,
        Poll::Pending => Res::Pending,
        Poll::Ready(Err(e)) => Res::Err(kind_name(e.kind())),
    }
}

/// The result a call must have, judged from what the transport did during the call: a transport
/// Pending / error / zero-length write ends the call with the corresponding result, otherwise Ok.
fn justified(evs: &[Ev]) -> Result<Res, String> {
    for (i, e) in evs.iter().enumerate() {
        let terminal = match e {
            Ev::WritePending | Ev::FlushPending | Ev::ShutdownPending => Some(Res::Pending),
            Ev::WriteZero => Some(Res::Err("WriteZero".into())),
            Ev::WriteErr(k) | Ev::FlushErr(k) | Ev::ShutdownErr(k) => Some(Res::Err(kind_name(*k))),
            _ => None,
        };
        if let Some(r) = terminal {
            if i + 1 != evs.len() {
                return Err(format!("the transport answered {:?} but the call went on using it: {:?}", e, evs));
            }
            return Ok(r);
        }
    }
    Ok(Res::Ok)
}

fn check_inner(c: &Case) -> CaseResult {
    let io = MockIo {
        wscript: c.wscript.iter().copied().collect(),
        fscript: c.fscript.iter().copied().collect(),
        sscript: c.sscript.iter().copied().collect(),
        default_accept: c.trickle,
        ..Default::default()
    };
    let mut framed = Framed::new(io, LenU16::default());
    let mut sent: Vec<u8> = vec![];
    let mut obs = Obs::new();
    let (mut partial, mut straddle, mut ready_at_hw, mut close_seen, mut close_with_data, mut flush_with_data) = (false, false, false, false, false, false);
    let mut saw_err = false;
    let (mut convert_with_data, mut many_writes, mut injected) = (false, false, false);
    let (mut rejected_with_data, mut read_eof_with_data) = (false, false);

    macro_rules! invariants {
        ($step:expr, $what:expr) => {{
            let wire = &framed.io_ref().wire;
            vensure!(wire.len() <= sent.len() && sent[..wire.len()] == wire[..], "C14/wire-not-prefix",
                "step {} ({}): bytes on the wire are not a prefix of the accepted items' encodings (wire {} bytes, sent {} bytes, first difference at {:?})",
                $step, $what, wire.len(), sent.len(), wire.iter().zip(sent.iter()).position(|(a, b)| a != b));
            let buffered = sent.len() - wire.len();
            vensure!(framed.is_write_buf_empty() == (buffered == 0), "C14/buf-empty-flag", "step {} ({}): is_write_buf_empty() = {} with {} bytes outstanding", $step, $what, framed.is_write_buf_empty(), buffered);
            vensure!(framed.is_write_buf_full() == (buffered >= HW), "C14/buf-full-flag", "step {} ({}): is_write_buf_full() = {} with {} bytes outstanding", $step, $what, framed.is_write_buf_full(), buffered);
            vensure!(framed.is_write_ready() == (buffered < HW), "C14/write-ready-flag", "step {} ({}): is_write_ready() = {} with {} bytes outstanding", $step, $what, framed.is_write_ready(), buffered);
            buffered
        }};
    }

    for (step, op) in c.ops.iter().enumerate() {
        let (_cw, w) = count_waker();
        let mut cx = Context::from_waker(&w);
        let buffered_before = sent.len() - framed.io_ref().wire.len();
        match *op {
            Op::Send { .. } | Op::PollReady => {
                let r = conv(Sink::<Vec<u8>>::poll_ready(Pin::new(&mut framed), &mut cx));
                let evs = framed.io_mut().take_events();
                if buffered_before >= HW {
                    ready_at_hw = true;
                }
                if buffered_before < HW {
                    vensure!(r == Res::Ok, "C14/ready-below-hw", "step {}: poll_ready returned {:?} with only {} bytes buffered (< 8 KiB)", step, r, buffered_before);
                } else {
                    let want = justified(&evs).map_err(|e| vcore::Fail::new("C14/result-unjustified", format!("step {} poll_ready: {}", step, e)))?;
                    vensure!(r == want, "C14/result-unjustified", "step {}: poll_ready at/above the high-water mark returned {:?}, transport events {:?} justify {:?}", step, r, evs, want);
                    if r == Res::Ok {
                        let b = sent.len() - framed.io_ref().wire.len();
                        vensure!(b < HW, "C14/no-backpressure", "step {}: poll_ready answered Ready(Ok) with {} bytes still buffered (>= 8 KiB)", step, b);
                    }
                }
                if let Res::Pending = r {
                    vensure!(framed.io_ref().last_waker.as_ref().map(|l| l.will_wake(&w)).unwrap_or(false), "C14/waker-not-passed", "step {}: Pending without the caller's waker reaching the transport", step);
                }
                if matches!(r, Res::Err(_)) {
                    saw_err = true;
                }
                partial |= evs.iter().any(|e| matches!(e, Ev::Wrote(n) if *n < buffered_before));
                if let (Op::Send { size, fill }, Res::Ok) = (*op, &r) {
                    let it = item(size, fill);
                    let before = sent.len();
                    ref_encode(&mut sent, &it);
                    straddle |= crosses(before - framed.io_ref().wire.len(), sent.len() - framed.io_ref().wire.len());
                    let res = Sink::<Vec<u8>>::start_send(Pin::new(&mut framed), it);
                    vensure!(res.is_ok(), "C14/start-send-error", "step {}: start_send failed: {:?}", step, res.err());
                }
                invariants!(step, "poll_ready/start_send");
            }
            Op::Write { size, fill } => {
                let it = item(size, fill);
                let before = sent.len();
                ref_encode(&mut sent, &it);
                straddle |= crosses(before - framed.io_ref().wire.len(), sent.len() - framed.io_ref().wire.len());
                let res = Pin::new(&mut framed).write(it);
                vensure!(res.is_ok(), "C14/start-send-error", "step {}: write failed: {:?}", step, res.err());
                invariants!(step, "write");
            }
            Op::SendRejected { direct } => {
                let it = item(crate::mockio::REJECTED_LEN as u16, 1);
                let res = if direct {
                    Pin::new(&mut framed).write(it)
                } else {
                    let r = conv(Sink::<Vec<u8>>::poll_ready(Pin::new(&mut framed), &mut cx));
                    let _ = framed.io_mut().take_events();
                    if r != Res::Ok {
                        invariants!(step, "poll_ready before a refused item");
                        continue;
                    }
                    Sink::<Vec<u8>>::start_send(Pin::new(&mut framed), it)
                };
                vensure!(res.is_err(), "C14/refused-item-accepted", "step {}: an item the encoder refuses was accepted", step);
                rejected_with_data |= buffered_before > 0;
                invariants!(step, "refused item");
            }
            Op::ReadToEof => {
                use futures_core::Stream;
                for _ in 0..4 {
                    match Pin::new(&mut framed).poll_next(&mut cx) {
                        Poll::Ready(None) => break,
                        Poll::Ready(Some(_)) | Poll::Pending => {}
                    }
                }
                let _ = framed.io_mut().take_events();
                read_eof_with_data |= buffered_before > 0;
                invariants!(step, "read half at end of stream");
            }
            Op::Convert { how } => {
                convert_with_data |= buffered_before > 0;
                framed = match how % 4 {
                    0 => Framed::from_parts(framed.into_parts()),
                    1 => framed.into_map_io(|io| io),
                    2 => framed.into_map_codec(|c| c),
                    _ => {
                        let codec = framed.codec_ref().clone();
                        framed.replace_codec(codec)
                    }
                };
                invariants!(step, "conversion");
            }
            Op::InjectWrite { size, fill, fresh } => {
                let it = item(size % 3000, fill);
                let mut parts = framed.into_parts();
                let mut enc = Vec::new();
                ref_encode(&mut enc, &it);
                parts.write_buf.extend_from_slice(&enc);
                ref_encode(&mut sent, &it);
                injected = true;
                framed = if fresh {
                    let mut p2 = actix_codec::FramedParts::new(parts.io, parts.codec);
                    p2.write_buf = parts.write_buf;
                    p2.read_buf = parts.read_buf;
                    Framed::from_parts(p2)
                } else {
                    Framed::from_parts(parts)
                };
                invariants!(step, "write buffer filled by hand");
            }
            Op::PollFlush | Op::PollClose => {
                let is_close = matches!(op, Op::PollClose);
                let r = if is_close {
                    close_seen = true;
                    close_with_data |= buffered_before > 0;
                    conv(Sink::<Vec<u8>>::poll_close(Pin::new(&mut framed), &mut cx))
                } else {
                    flush_with_data |= buffered_before > 0;
                    conv(Sink::<Vec<u8>>::poll_flush(Pin::new(&mut framed), &mut cx))
                };
                let evs = framed.io_mut().take_events();
                let name = if is_close { "poll_close" } else { "poll_flush" };
                let want = justified(&evs).map_err(|e| vcore::Fail::new("C14/result-unjustified", format!("step {} {}: {}", step, name, e)))?;
                vensure!(r == want, "C14/result-unjustified", "step {}: {} returned {:?}, transport events {:?} justify {:?}", step, name, r, evs, want);
                partial |= evs.iter().any(|e| matches!(e, Ev::Wrote(n) if *n < buffered_before));
                many_writes |= evs.iter().filter(|e| matches!(e, Ev::Wrote(_))).count() > 16;
                let buffered = invariants!(step, name);
                if r == Res::Ok {
                    vensure!(buffered == 0, if is_close { "C14/close-unflushed" } else { "C14/flush-unflushed" },
                        "step {}: {} returned Ready(Ok) with {} accepted bytes still buffered (wire {} of {} bytes)", step, name, buffered, framed.io_ref().wire.len(), sent.len());
                    vensure!(framed.io_ref().flushed_after_last_write, "C14/transport-not-flushed", "step {}: {} returned Ready(Ok) without flushing the transport after its last write", step, name);
                    if is_close {
                        vensure!(framed.io_ref().shutdown_done, "C14/close-no-shutdown", "step {}: poll_close returned Ready(Ok) without shutting the transport down", step);
                    }
                }
                if let Res::Pending = r {
                    vensure!(framed.io_ref().last_waker.as_ref().map(|l| l.will_wake(&w)).unwrap_or(false), "C14/waker-not-passed", "step {}: Pending without the caller's waker reaching the transport", step);
                }
                if matches!(r, Res::Err(_)) {
                    saw_err = true;
                }
            }
        }
    }
    // final drain with an all-accepting transport: everything accepted must reach the wire, in order
    framed.io_mut().wscript.clear();
    framed.io_mut().fscript.clear();
    framed.io_mut().default_accept = 0;
    let (_cw, w) = count_waker();
    let mut cx = Context::from_waker(&w);
    let r = conv(Sink::<Vec<u8>>::poll_flush(Pin::new(&mut framed), &mut cx));
    vensure!(r == Res::Ok, "C14/final-flush", "final poll_flush on an all-accepting transport returned {:?}", r);
    vensure!(framed.io_ref().wire == sent, "C14/lost-or-reordered", "after the final flush the wire holds {} bytes, the accepted items encode to {} bytes (lost, duplicated or reordered data)", framed.io_ref().wire.len(), sent.len());

    obs.nontrivial = straddle && partial && (close_seen || ready_at_hw);
    obs.label_if(partial, "partial-write");
    obs.label_if(straddle, "straddles-1K-or-8K");
    obs.label_if(ready_at_hw, "poll_ready-at-HW");
    obs.label_if(close_with_data, "close-with-buffered-data");
    obs.label_if(flush_with_data, "flush-with-buffered-data");
    obs.label_if(saw_err, "transport-error");
    obs.label_if(convert_with_data, "conversion-with-buffered-data");
    obs.label_if(injected, "write-buffer-filled-by-hand");
    obs.label_if(rejected_with_data, "refused-item-with-buffered-data");
    obs.label_if(read_eof_with_data, "read-eof-with-buffered-data");
    obs.label_if(many_writes, ">16-writes-in-one-call");
    Ok(obs)
}

fn crosses(before: usize, after: usize) -> bool {
    (before < 1024 && after > 1024) || (before < HW && after > HW)
}

// ---- generators --------------------------------------------------------------------------------

const SIZES: [u16; 12] = [0, 1, 100, 1021, 1022, 1023, 4096, 8189, 8190, 8191, 8193, 20000];

fn size() -> impl Strategy<Value = u16> {
    prop_oneof![3 => prop::sample::select(SIZES.to_vec()), 1 => 0u16..3000]
}

fn op() -> impl Strategy<Value = Op> {
    prop_oneof![
        5 => (size(), any::<u8>()).prop_map(|(size, fill)| Op::Send { size, fill }),
        2 => (size(), any::<u8>()).prop_map(|(size, fill)| Op::Write { size, fill }),
        1 => Just(Op::PollReady),
        3 => Just(Op::PollFlush),
        2 => Just(Op::PollClose),
        1 => any::<u8>().prop_map(|how| Op::Convert { how }),
        1 => (prop::sample::select(vec![1u16, 5, 100, 1500, 2999]), any::<u8>(), any::<bool>()).prop_map(|(size, fill, fresh)| Op::InjectWrite { size, fill, fresh }),
        1 => any::<bool>().prop_map(|direct| Op::SendRejected { direct }),
        1 => Just(Op::ReadToEof),
    ]
}

fn wstep() -> impl Strategy<Value = WStep> {
    prop_oneof![
        6 => prop::sample::select(vec![1u16, 2, 100, 1023, 1024, 1025, 4000, 8191, 8192, 8193, u16::MAX]).prop_map(WStep::Accept),
        2 => Just(WStep::Pending),
        1 => Just(WStep::Zero),
        1 => (0u8..6).prop_map(WStep::Err),
    ]
}

fn fstep() -> impl Strategy<Value = FStep> {
    prop_oneof![5 => Just(FStep::Ready), 2 => Just(FStep::Pending), 1 => (0u8..6).prop_map(FStep::Err)]
}

pub fn strategy() -> impl Strategy<Value = Case> {
    (
        prop::collection::vec(op(), 1..16),
        prop::collection::vec(wstep(), 0..24),
        prop::collection::vec(fstep(), 0..6),
        prop::collection::vec(fstep(), 0..4),
        prop_oneof![3 => Just(0u16), 2 => prop::sample::select(vec![1u16, 3, 8, 64, 500])],
    )
        .prop_map(|(ops, wscript, fscript, sscript, trickle)| Case { ops, wscript, fscript, sscript, trickle })
}

pub fn case_from_bytes(data: &[u8]) -> Case {
    let mut u = arbitrary::Unstructured::new(data);
    let nops = u.int_in_range(1..=12usize).unwrap_or(1);
    let mut ops = vec![];
    for _ in 0..nops {
        let b: u8 = u.arbitrary().unwrap_or(0);
        let s: u8 = u.arbitrary().unwrap_or(0);
        let size = SIZES[(s as usize) % SIZES.len()];
        ops.push(match b % 9 {
            0..=2 => Op::Send { size, fill: s },
            3 => Op::Write { size, fill: s },
            4 => Op::PollReady,
            5 | 6 => Op::PollFlush,
            7 => Op::PollClose,
            _ => match s % 4 {
                0 => Op::SendRejected { direct: s & 4 != 0 },
                1 => Op::ReadToEof,
                _ => Op::Convert { how: s },
            },
        });
    }
    let mut wscript = vec![];
    let nw = u.int_in_range(0..=16usize).unwrap_or(0);
    for _ in 0..nw {
        let b: u8 = u.arbitrary().unwrap_or(0);
        wscript.push(match b % 8 {
            0 => WStep::Pending,
            1 => WStep::Zero,
            2 => WStep::Err(b >> 4),
            _ => WStep::Accept([1u16, 100, 1024, 4000, 8192, u16::MAX][(b >> 4) as usize % 6]),
        });
    }
    let mut fs = vec![];
    for b in u.take_rest().iter().take(8) {
        fs.push(match b % 6 {
            0 => FStep::Pending,
            1 => FStep::Err(b >> 4),
            _ => FStep::Ready,
        });
    }
    let sscript = fs.split_off(fs.len().min(5));
    let trickle = [0u16, 0, 0, 1, 3, 8, 64, 500][data.len() % 8];
    Case { ops, wscript, fscript: fs, sscript, trickle }
}

const RULE: &str = "op lists over {Sink send (poll_ready then start_send), direct Framed::write, poll_ready, poll_flush, poll_close, rebuild the Framed through into_parts+from_parts / into_map_io / into_map_codec / replace_codec, offer an item the encoder refuses, poll the read half to its end of stream} with item sizes straddling 1 KiB / 8 KiB, on a scripted AsyncWrite (accept k / Pending / zero / error; flush and shutdown scripts; after the script a peer that takes everything or only 1..500 bytes per write, so that one flush can take far more than 16 writes); after every op: wire is a prefix of the accepted items' reference encoding, buffer-state accessors agree, each result is justified by the transport events of that call, flush/close Ready(Ok) only with nothing buffered (+transport flushed, +shutdown); final drain: wire == sent; non-trivial = an item straddles 1 KiB or 8 KiB, a partial write happened, and a poll_close or a poll_ready at/above the high-water mark occurred";

pub fn run(ctx: &Ctx) {
    ctx.assume("the reference encoding (u16 BE length + payload) is computed by the harness; the transport mock records what it accepted");
    ctx.run_corpus::<Case>("framed-write", check_case);
    ctx.run_random(
        Part::new("framed-write", RULE, ctx.tier.scale(300_000, 10)).floors(&[
            ("partial-write", 0.3),
            ("straddles-1K-or-8K", 0.5),
            ("poll_ready-at-HW", 0.15),
            ("close-with-buffered-data", 0.15),
            ("transport-error", 0.1),
            ("conversion-with-buffered-data", 0.1),
            ("refused-item-with-buffered-data", 0.05),
            ("read-eof-with-buffered-data", 0.05),
            (">16-writes-in-one-call", 0.02),
        ]),
        strategy,
        check_case,
    );
    if ctx.tier == vcore::Tier::Thorough {
        ctx.run_fuzz(
            vcore::fuzz::Campaign { target: "c14_framed_write", part: "framed-write", runs_per_proc: 200_000, procs: 6, max_len: 96, rule: RULE },
            &[vec![4, 0, 5, 0, 7, 3, 11, 7, 0, 4, 0x13, 0x23, 0, 8, 2, 2], vec![3, 0, 11, 0, 11, 7, 0, 2, 0x13, 0x33]],
            &|bytes| {
                let c = case_from_bytes(bytes);
                let r = check_case(&c);
                Some((serde_json::to_value(&c).unwrap(), r))
            },
            &|v| serde_json::from_value::<Case>(v.clone()).ok().map(|c| check_case(&c)),
        );
    }
}

pub fn replay(ctx: &Ctx, v: &Value) -> i32 {
    ctx.replay::<Case>(v, check_case)
}
