pub mod c18;
pub mod c19;
pub mod certs;
pub mod io;
