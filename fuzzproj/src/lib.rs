// dummy
