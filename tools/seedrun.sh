#!/bin/bash
# tools/seedrun.sh <ID> <dir-with-patch.diff> [quick|thorough]
# Applies a seeded change to /repo, runs the property's check, reverts. Prints CAUGHT / MISSED.
ID=$1; DIR=$2; TIER=${3:-quick}
cd /repo || exit 2
if [ -n "$(git status --porcelain --untracked-files=no)" ]; then echo "/repo not clean"; exit 2; fi
git apply "$DIR/patch.diff" || { echo "patch does not apply"; exit 2; }
cd /verif
OUT=$(./check "$ID" "$TIER" 2>&1); RC=$?
git -C /repo checkout -- .
echo "$OUT" | grep -E "VIOLATION|INCONCLUSIVE|signature" | head -5
if [ $RC -eq 1 ]; then echo "CAUGHT $ID $DIR rc=$RC"; else echo "MISSED $ID $DIR rc=$RC"; echo "$OUT" | tail -5; fi
