//! L2 — the real `Accept` stepped one loop iteration at a time on this thread, real kernel
//! listeners (TCP loopback / UDS path), harness-owned worker ends holding the real queue receiver,
//! the real atomic counter and real guards.  A schedule is a `Vec<Op>`.
//!
//! Ground truth is kept by the harness only (never read from the SUT): which client connected to
//! which listener and in which order, which worker incarnation holds which connection, which
//! control interests were pushed, when an injected accept error was consumed (virtual time).

use std::{
    cell::RefCell,
    collections::VecDeque,
    io::Read,
    panic::{catch_unwind, AssertUnwindSafe},
    rc::Rc,
    time::Duration,
};

use actix_server::verif::{self as hv, Interest, Listener, MioStream, Step, Stepped, WakerQueueV, WorkerEnd, YieldPoint};
use serde::{Deserialize, Serialize};
use vcore::{CaseResult, Fail, Obs};

pub use crate::kinds::{ErrKind, LKind};

#[derive(Clone, Copy, Debug, Serialize, Deserialize, PartialEq)]
pub enum Op {
    Connect { l: u16 },
    /// connect, and in the step that dispatches it let the worker pick it up and finish it at the
    /// yield point between `send` and `inc_counter`
    ConnectRace { l: u16 },
    Step,
    Quiesce,
    Pickup { w: u16 },
    Finish { w: u16, k: u16 },
    Pause,
    Resume,
    Stop,
    Inject { l: u16, kind: ErrKind },
    Advance { ms: u32 },
    Kill { w: u16 },
    /// answer every outstanding WorkerFaulted with a fresh worker end + Worker interest
    Replace,
    /// 18..40 alternating pause / resume commands queued at once (ends resumed), as a client that
    /// issues commands while the accept thread is busy produces them
    CtlBurst { n: u8 },
    /// 130..329 clients connect to listener `l` at once (only with a limit that can take them all;
    /// otherwise a single connect): more than any accept batch could hold
    ConnectBurst { l: u16, n: u8 },
}

#[derive(Clone, Debug, Serialize, Deserialize, PartialEq)]
pub struct Case {
    pub workers: usize,
    pub limit: usize,
    pub listeners: Vec<LKind>,
    pub ops: Vec<Op>,
}

/// which property's oracles are reported (all oracles run on every case; a check only raises the
/// alarms of its own property so that one defect cannot raise an alarm under another id)
#[derive(Clone, Copy, Debug, PartialEq, Eq)]
pub enum Prop {
    C01,
    C02,
    C03,
    C04,
    C05,
    C06,
    C08,
}

enum Sock {
    Tcp(#[allow(dead_code)] std::net::TcpStream),
    Uds(#[allow(dead_code)] std::os::unix::net::UnixStream),
}

#[derive(Clone, Copy, Debug, PartialEq, Eq)]
enum CState {
    Backlog,
    Queued,
    Live,
    Served,
    /// queued at a worker when it was killed
    Released,
    /// accepted while no worker handle was alive
    DroppedNoWorkers,
}

struct ConnRec {
    listener: usize,
    ident: String,
    state: CState,
    _sock: Sock,
}

struct LiveConn {
    id: usize,
    _guard: hv::Guard,
    _io: MioStream,
}

struct WSlot {
    end: Option<WorkerEnd>,
    alive: bool,
    /// its handle is (as far as the harness pushed it) with the accept loop
    in_rotation: bool,
    queued: VecDeque<usize>,
    live: Vec<LiveConn>,
    zombies: Vec<LiveConn>,
    kills: u32,
    reported: u32,
    ever_saturated: bool,
}

#[derive(Clone, Copy, Debug, PartialEq, Eq)]
enum Ctl {
    Pause,
    Resume,
    Stop,
    Worker,
}

#[derive(Clone, Debug)]
struct DispatchRec {
    worker: usize,
    sat_before: Vec<bool>,
    /// workers that have been saturated at any time up to and including this dispatch
    ever_sat_after: Vec<bool>,
    /// worker handles in the accept loop's rotation when this dispatch happened
    in_rot_before: usize,
}

struct Model {
    limit: usize,
    conns: Vec<ConnRec>,
    backlog: Vec<VecDeque<usize>>,
    workers: Vec<WSlot>,
    pending_ctl: Vec<Ctl>,
    sut_paused: bool,
    stopped: bool,
    any_kill: bool,
    dispatches: Vec<DispatchRec>,
    /// violations found while processing (prop, signature, message)
    found: Vec<(Prop, &'static str, String)>,
    races_left: u32,
    race_done: u32,
    limit_constrained: bool,
    /// round-robin reference: cursor and what the accept loop can know about each worker
    rr_cursor: usize,
    rr_bits: Vec<Tri>,
    rr_checked: u32,
    /// a guard of a dead incarnation was dropped (its late notification may legitimately re-open the replacement)
    zombie_finished: bool,
    /// dispatches before this index are not used by the pair rule (a handle was removed since)
    pair_barrier: usize,
    pair_checked: u32,
    pair_after_restart: u32,
    /// deliveries whose socket was not the one connected at that position (accept-queue order)
    kernel_reorders: u32,
}

pub fn trace_on() -> bool {
    static ON: std::sync::OnceLock<bool> = std::sync::OnceLock::new();
    *ON.get_or_init(|| std::env::var("VERIF_TRACE").is_ok())
}

/// the accept loop's knowledge of a worker's availability, as far as the harness can tell
#[derive(Clone, Copy, Debug, PartialEq, Eq)]
enum Tri {
    Yes,
    No,
    /// released a connection at its limit; the notification may or may not have been processed
    Maybe,
}

impl Model {
    fn load(&self, w: usize) -> usize {
        self.workers[w].queued.len() + self.workers[w].live.len()
    }

    fn flag(&mut self, p: Prop, sig: &'static str, msg: String) {
        self.found.push((p, sig, msg));
    }

    /// absorb new entries of the SUT's dispatch log
    fn process_log(&mut self) {
        for d in hv::take_dispatch_log() {
            if trace_on() {
                eprintln!("TRACE   dispatch token {} -> worker {:?}", d.token, d.worker);
            }
            let Some(id) = self.backlog.get_mut(d.token).and_then(|b| b.pop_front()) else {
                self.flag(Prop::C01, "C01/phantom-dispatch", format!("a connection was dispatched for listener {} although none was waiting there", d.token));
                continue;
            };
            match d.worker {
                Some(w) => {
                    if w >= self.workers.len() || !self.workers[w].alive {
                        self.flag(Prop::C08, "C08/dispatch-to-dead", format!("connection {} was dispatched to worker {:?} which is dead", id, w));
                        self.conns[id].state = CState::Released;
                        continue;
                    }
                    let sat_before: Vec<bool> = (0..self.workers.len()).map(|i| self.load(i) >= self.limit).collect();
                    // round-robin reference model (only without faults and without the finish-before-count race)
                    if !self.any_kill && self.race_done == 0 && self.races_left == 0 {
                        let nw = self.workers.len();
                        let mut allowed = vec![];
                        for j in 0..nw {
                            let idx = (self.rr_cursor + j) % nw;
                            match self.rr_bits[idx] {
                                Tri::Yes => {
                                    allowed.push(idx);
                                    break;
                                }
                                Tri::Maybe => allowed.push(idx),
                                Tri::No => {}
                            }
                        }
                        if !allowed.is_empty() {
                            self.rr_checked += 1;
                            if !allowed.contains(&w) {
                                let msg = format!("dispatch #{} went to worker {} but round-robin from position {} over the available workers allows only {:?} (availability as the accept loop can know it: {:?}, loads {:?}, limit {})",
                                    self.dispatches.len(), w, self.rr_cursor, allowed, self.rr_bits, (0..nw).map(|i| self.load(i)).collect::<Vec<_>>(), self.limit);
                                self.flag(Prop::C04, "C04/not-round-robin", msg);
                            }
                        }
                        self.rr_cursor = (w + 1) % nw;
                    }
                    self.workers[w].queued.push_back(id);
                    self.conns[id].state = CState::Queued;
                    let load = self.load(w);
                    if load >= self.limit {
                        self.workers[w].ever_saturated = true;
                        self.rr_bits[w] = Tri::No;
                    }
                    let ever_sat_after: Vec<bool> = self.workers.iter().map(|s| s.ever_saturated).collect();
                    let in_rot_before = self.workers.iter().filter(|s| s.in_rotation).count();
                    self.dispatches.push(DispatchRec { worker: w, sat_before, ever_sat_after, in_rot_before });
                    if load > self.limit {
                        let msg = format!("worker {} has {} connections in progress (queued {} + live {}), limit {}", w, load, self.workers[w].queued.len(), self.workers[w].live.len(), self.limit);
                        if !self.any_kill {
                            self.flag(Prop::C02, "C02/limit-exceeded", msg.clone());
                            self.flag(Prop::C04, "C04/saturated-receives", msg);
                        } else if !self.zombie_finished && self.pending_ctl.is_empty() && self.workers.iter().all(|s| s.alive && s.in_rotation) {
                            // every fault has been resolved (all workers alive and back in the
                            // rotation): no forced send can be in play, the skip rule applies again
                            self.flag(Prop::C04, "C04/saturated-receives", format!("{} although every faulted worker has been replaced and rejoined the rotation", msg));
                        }
                    }
                }
                None => {
                    self.conns[id].state = CState::DroppedNoWorkers;
                    let someone = self.workers.iter().any(|s| s.alive && s.in_rotation);
                    if someone {
                        let msg = format!("connection {} was dropped ('no workers') although a live worker is in the rotation", id);
                        self.flag(Prop::C08, "C08/dropped-with-live-worker", msg.clone());
                        self.flag(Prop::C01, "C01/discarded", msg);
                    }
                }
            }
        }
    }

    fn pickup(&mut self, w: usize, strict: bool) -> bool {
        let Some(end) = self.workers[w].end.as_mut() else { return false };
        match end.try_pickup() {
            Some(p) => {
                let Some(id) = self.workers[w].queued.pop_front() else {
                    self.flag(Prop::C01, "C01/unexpected-delivery", format!("worker {} received a connection that the dispatch log never assigned to it", w));
                    return true;
                };
                let ident = ident_of(&p.io, self.conns[id].ident.starts_with("uds:"));
                if p.token != self.conns[id].listener {
                    self.flag(Prop::C01, "C01/wrong-token", format!("connection {} arrived on listener {} but carries token {}", id, self.conns[id].listener, p.token));
                }
                if ident != self.conns[id].ident {
                    // The kernel does not promise that a listener's accept queue is in connect()
                    // order (the client thread may change CPU between two connects): a connection
                    // of the same listener that nobody has received yet is the same thing to the
                    // model, the two records swap their sockets.
                    let other = self.conns.iter().position(|c| c.ident == ident);
                    match other {
                        Some(o) if self.conns[o].listener == self.conns[id].listener && matches!(self.conns[o].state, CState::Backlog | CState::Queued) => {
                            let (a, b) = if o < id { (o, id) } else { (id, o) };
                            let (left, right) = self.conns.split_at_mut(b);
                            std::mem::swap(&mut left[a].ident, &mut right[0].ident);
                            std::mem::swap(&mut left[a]._sock, &mut right[0]._sock);
                            self.kernel_reorders += 1;
                        }
                        _ => self.flag(Prop::C01, "C01/wrong-connection", format!("worker {} expected connection {} ({}) next, received {}", w, id, self.conns[id].ident, ident)),
                    }
                }
                if self.conns[id].state != CState::Queued {
                    self.flag(Prop::C01, "C01/duplicate", format!("connection {} delivered in state {:?}", id, self.conns[id].state));
                }
                self.conns[id].state = CState::Live;
                self.workers[w].live.push(LiveConn { id, _guard: p.guard, _io: p.io });
                true
            }
            None => {
                if strict && !self.workers[w].queued.is_empty() {
                    let id = self.workers[w].queued[0];
                    self.flag(Prop::C01, "C01/lost-in-queue", format!("connection {} was dispatched to worker {} but its queue is empty", id, w));
                    self.workers[w].queued.clear();
                }
                false
            }
        }
    }

    fn finish(&mut self, w: usize, k: usize) {
        let slot = &mut self.workers[w];
        let n = slot.live.len() + slot.zombies.len();
        if n == 0 {
            return;
        }
        let k = k % n;
        let from_live = k < slot.live.len();
        if !from_live {
            self.zombie_finished = true;
        }
        let c = if from_live { slot.live.remove(k) } else { slot.zombies.remove(k - slot.live.len()) };
        let id = c.id;
        // the release that takes a worker from its limit to limit-1 sends a notification
        if from_live && slot.queued.len() + slot.live.len() + 1 == self.limit {
            self.rr_bits[w] = Tri::Maybe;
        }
        drop(c); // drops the real guard: Counter::dec + possibly WorkerAvailable
        self.conns[id].state = CState::Served;
    }
}

fn ident_of(io: &MioStream, uds: bool) -> String {
    match io {
        MioStream::Tcp(s) => format!("tcp:{}->{}", s.peer_addr().map(|a| a.to_string()).unwrap_or_else(|e| format!("?{e}")), s.local_addr().map(|a| a.to_string()).unwrap_or_else(|e| format!("?{e}"))),
        MioStream::Uds(s) => {
            // identity of a UDS client = the 4 id bytes it wrote right after connect
            let _ = uds;
            let mut b = [0u8; 4];
            let mut s2: &mio::net::UnixStream = s;
            match s2.read(&mut b) {
                Ok(4) => format!("uds:{}", u32::from_le_bytes(b)),
                other => format!("uds:?{:?}", other),
            }
        }
    }
}

pub struct RunOut {
    pub obs: Obs,
}

thread_local! {
    static UDS_SEQ: std::cell::Cell<u64> = const { std::cell::Cell::new(0) };
}

fn uds_path() -> std::path::PathBuf {
    let n = UDS_SEQ.with(|c| {
        c.set(c.get() + 1);
        c.get()
    });
    let dir = std::env::temp_dir().join(format!("verif-l2-{}", std::process::id()));
    let _ = std::fs::create_dir_all(&dir);
    dir.join(format!("{:?}-{}.sock", std::thread::current().id(), n).replace(['(', ')'], ""))
}

enum LAddr {
    Tcp(std::net::SocketAddr),
    Uds(std::path::PathBuf),
}

struct Engine {
    stepped: Stepped,
    wq: WakerQueueV,
    model: Rc<RefCell<Model>>,
    addrs: Vec<LAddr>,
    fds: Vec<i32>,
    /// virtual time (ms since case start) at which the last fatal injected error was consumed
    backoff: Vec<Option<u64>>,
    /// a fatal injected error is armed on the listener and has not been returned by accept() yet
    armed_fatal: Vec<bool>,
    now_ms: u64,
    steps: u64,
    /// times the kernel was given real time before a stranded connection would have been reported
    kernel_grace: u32,
    labels: Vec<&'static str>,
    aborted: Option<String>,
}

const SPIN_STEPS: usize = 400;

impl Engine {
    fn new(c: &Case) -> std::io::Result<Engine> {
        let prepared = hv::prepare()?;
        let wq = prepared.waker_queue();
        let mut handles = vec![];
        let mut slots = vec![];
        for i in 0..c.workers {
            let (h, end) = hv::fake_worker(i, c.limit, &wq);
            handles.push(h);
            slots.push(WSlot { end: Some(end), alive: true, in_rotation: true, queued: VecDeque::new(), live: vec![], zombies: vec![], kills: 0, reported: 0, ever_saturated: false });
        }
        let mut listeners = vec![];
        let mut addrs = vec![];
        for k in &c.listeners {
            match k {
                LKind::Tcp => {
                    let l = std::net::TcpListener::bind("127.0.0.1:0")?;
                    // room for a few hundred pending connections (bursts while paused)
                    socket2::SockRef::from(&l).listen(1024)?;
                    addrs.push(LAddr::Tcp(l.local_addr()?));
                    listeners.push(Listener::Tcp(l));
                }
                LKind::Uds => {
                    let p = uds_path();
                    let _ = std::fs::remove_file(&p);
                    let l = std::os::unix::net::UnixListener::bind(&p)?;
                    socket2::SockRef::from(&l).listen(1024)?;
                    addrs.push(LAddr::Uds(p));
                    listeners.push(Listener::Uds(l));
                }
            }
        }
        let stepped = prepared.build(listeners, handles)?;
        let fds: Vec<i32> = (0..c.listeners.len()).map(|i| stepped.listener_fd(i)).collect();
        for fd in &fds {
            hv::clear_injected(*fd);
            hv::take_consumed_injections(*fd);
        }
        let _ = hv::take_dispatch_log();
        let model = Model {
            limit: c.limit,
            conns: vec![],
            backlog: vec![VecDeque::new(); c.listeners.len()],
            workers: slots,
            pending_ctl: vec![],
            sut_paused: false,
            stopped: false,
            any_kill: false,
            dispatches: vec![],
            found: vec![],
            races_left: 0,
            race_done: 0,
            limit_constrained: false,
            rr_cursor: 0,
            rr_bits: vec![Tri::Yes; c.workers],
            pair_barrier: 0,
            pair_checked: 0,
            pair_after_restart: 0,
            kernel_reorders: 0,
            rr_checked: 0,
            zombie_finished: false,
        };
        let n = c.listeners.len();
        Ok(Engine { stepped, wq, model: Rc::new(RefCell::new(model)), addrs, fds, backoff: vec![None; n], armed_fatal: vec![false; n], now_ms: 0, steps: 0, kernel_grace: 0, labels: vec![], aborted: None })
    }

    fn label(&mut self, l: &'static str) {
        if !self.labels.contains(&l) {
            self.labels.push(l);
        }
    }

    fn connect(&mut self, l: usize) {
        if self.model.borrow().stopped {
            return;
        }
        let id = self.model.borrow().conns.len();
        let res: std::io::Result<(Sock, String)> = match &self.addrs[l] {
            LAddr::Tcp(a) => std::net::TcpStream::connect(a).and_then(|s| {
                // close with RST: no TIME_WAIT, otherwise thousands of cases exhaust the ephemeral ports
                socket2::SockRef::from(&s).set_linger(Some(Duration::ZERO))?;
                let ident = format!("tcp:{}->{}", s.local_addr()?, a);
                Ok((Sock::Tcp(s), ident))
            }),
            LAddr::Uds(p) => std::os::unix::net::UnixStream::connect(p).and_then(|mut s| {
                use std::io::Write;
                s.write_all(&(id as u32).to_le_bytes())?;
                Ok((Sock::Uds(s), format!("uds:{}", id)))
            }),
        };
        let mut m = self.model.borrow_mut();
        match res {
            Ok((sock, ident)) => {
                m.conns.push(ConnRec { listener: l, ident, state: CState::Backlog, _sock: sock });
                m.backlog[l].push_back(id);
            }
            Err(e) => {
                // the server has not been stopped: every listener must stay connectable
                let paused = m.sut_paused;
                m.flag(Prop::C05, "C05/not-connectable", format!("connect to listener {} ({}) failed with {:?} although the server has not been stopped (paused={})", l, match &self.addrs[l] { LAddr::Tcp(_) => "tcp", LAddr::Uds(_) => "uds" }, e.kind(), paused));
            }
        }
    }

    /// one accept-loop iteration; returns what the driver reported
    fn step(&mut self) -> Option<Step> {
        if self.aborted.is_some() {
            return None;
        }
        let started_paused = self.model.borrow().sut_paused;
        let pending: Vec<Ctl> = self.model.borrow().pending_ctl.clone();
        let log_before = self.model.borrow().dispatches.len();
        let drops_before = self.model.borrow().conns.iter().filter(|c| c.state == CState::DroppedNoWorkers).count();
        // yield-point callback: the production race "connection finishes before it is counted"
        let mc = self.model.clone();
        hv::set_yield_callback(Some(Box::new(move |p: YieldPoint| {
            let YieldPoint::SentNotCounted { idx } = p;
            let mut m = mc.borrow_mut();
            m.process_log();
            if m.races_left > 0 && idx < m.workers.len() && m.workers[idx].alive {
                m.races_left -= 1;
                if m.pickup(idx, false) {
                    let k = m.workers[idx].live.len() - 1;
                    m.finish(idx, k);
                    m.race_done += 1;
                }
            }
        })));
        let r = catch_unwind(AssertUnwindSafe(|| self.stepped.step()));
        hv::set_yield_callback(None);
        self.steps += 1;
        let step = match r {
            Ok(s) => s,
            Err(p) => {
                let msg = vcore::panic_message(&*p);
                self.model.borrow_mut().flag(Prop::C08, if msg.contains("spin guard") { "C08/accept-spin" } else { "C08/accept-panic" }, format!("the accept loop panicked: {}", msg));
                {
                    let mut m = self.model.borrow_mut();
                    let unserved = m.conns.iter().filter(|c| matches!(c.state, CState::Backlog | CState::Queued)).count();
                    if m.workers.iter().any(|s| s.alive) && unserved > 0 {
                        m.flag(Prop::C01, "C01/accept-loop-dead", format!("the accept loop died or spins ({}) while a worker is alive and {} accepted or waiting connection(s) can no longer be dispatched", msg, unserved));
                    }
                }
                self.aborted = Some(msg);
                return None;
            }
        };
        let mut m = self.model.borrow_mut();
        m.process_log();
        // consumed injections -> back-off bookkeeping (fatal kinds only; recorded by `inject`)
        drop(m);
        for l in 0..self.fds.len() {
            if hv::take_consumed_injections(self.fds[l]) > 0 && self.armed_fatal[l] {
                self.armed_fatal[l] = false;
                self.backoff[l] = Some(self.now_ms);
            }
        }
        let mut m = self.model.borrow_mut();
        // control interests are drained completely by a step that handled the waker event
        if matches!(step, Step::Ran { .. } | Step::Exited) && self.wq.is_empty() && !pending.is_empty() {
            for c in &pending {
                match c {
                    Ctl::Pause => m.sut_paused = true,
                    Ctl::Resume => m.sut_paused = false,
                    Ctl::Stop => m.stopped = true,
                    Ctl::Worker => {}
                }
            }
            m.pending_ctl.clear();
            for s in m.workers.iter_mut() {
                if s.alive {
                    s.in_rotation = true;
                }
            }
        }
        // a step that ran and left the waker queue empty has processed every availability notification
        if matches!(step, Step::Ran { .. }) && self.wq.is_empty() {
            for w in 0..m.workers.len() {
                if m.rr_bits[w] == Tri::Maybe {
                    m.rr_bits[w] = if m.load(w) < m.limit { Tri::Yes } else { Tri::No };
                }
            }
        }
        if step == Step::Exited {
            m.stopped = true;
        }
        // P1: a step that starts paused and consumes no Resume dispatches nothing
        let new_dispatch = m.dispatches.len() > log_before || m.conns.iter().filter(|c| c.state == CState::DroppedNoWorkers).count() > drops_before;
        if started_paused && !pending.contains(&Ctl::Resume) && new_dispatch {
            m.flag(Prop::C05, "C05/dispatch-while-paused", format!("a connection was dispatched in a step that began paused and consumed no Resume (pending {:?})", pending));
        }
        // worker-fault reports
        drop(m);
        let mut any_report = false;
        for cmd in self.stepped.drain_cmds() {
            if let hv::Cmd::WorkerFaulted(idx) = cmd {
                any_report = true;
                let mut m = self.model.borrow_mut();
                if idx >= m.workers.len() || m.workers[idx].alive {
                    m.flag(Prop::C08, "C08/false-fault-report", format!("WorkerFaulted({}) reported for a worker that is alive", idx));
                } else {
                    m.workers[idx].reported += 1;
                    if m.workers[idx].reported > m.workers[idx].kills {
                        let (r, k) = (m.workers[idx].reported, m.workers[idx].kills);
                        m.flag(Prop::C08, "C08/duplicate-fault-report", format!("WorkerFaulted({}) reported {} times for {} fault(s)", idx, r, k));
                    }
                    m.workers[idx].in_rotation = false;
                }
            }
        }
        {
            // pair rule (also holds across a worker's restart): with a limit that never
            // constrains, two consecutive connections go to two different workers whenever the
            // rotation held at least two handles at the first one and no handle was removed
            // since (a removal moves the last handle into the freed position)
            let mut m = self.model.borrow_mut();
            if any_report {
                m.pair_barrier = m.dispatches.len();
            } else if m.limit >= 64 {
                for j in log_before.max(1)..m.dispatches.len() {
                    if j - 1 < m.pair_barrier {
                        continue;
                    }
                    let (aw, arot, bw) = (m.dispatches[j - 1].worker, m.dispatches[j - 1].in_rot_before, m.dispatches[j].worker);
                    if arot >= 2 {
                        m.pair_checked += 1;
                        if m.workers.iter().any(|s| s.kills > 0 && s.alive && s.in_rotation) {
                            m.pair_after_restart += 1;
                        }
                        if aw == bw {
                            let msg = format!("dispatches #{} and #{} both went to worker {} although the rotation held {} handles, no worker was near its limit ({}) and no handle was removed in between", j, j + 1, aw, arot, m.limit);
                            m.flag(Prop::C04, "C04/same-worker-twice", msg);
                        }
                    }
                }
            }
        }
        Some(step)
    }

    /// run to quiescence: blocked in poll with an empty waker queue
    fn quiesce(&mut self) -> bool {
        let mut blocked_with_commands = 0;
        for _ in 0..SPIN_STEPS {
            match self.step() {
                None => return false,
                Some(Step::Blocked) if self.wq.is_empty() => return true,
                Some(Step::Exited) => return true,
                Some(Step::Blocked) => {
                    // blocked in poll although commands are queued: nothing will wake it for them
                    blocked_with_commands += 1;
                    if blocked_with_commands >= 3 {
                        let mut m = self.model.borrow_mut();
                        let pending = m.pending_ctl.clone();
                        let msg = format!("the accept loop blocks in poll although {} command(s) are still queued for it ({:?}...): they were queued before its last wake-up and nothing will wake it for them", pending.len(), &pending[..pending.len().min(4)]);
                        m.flag(Prop::C05, "C05/commands-stuck", msg.clone());
                        if pending.contains(&Ctl::Stop) {
                            m.flag(Prop::C06, "C06/stop-not-processed", msg.clone());
                        }
                        m.flag(Prop::C08, "C08/commands-stuck", msg);
                        drop(m);
                        self.aborted = Some("commands stuck".into());
                        return false;
                    }
                }
                _ => {}
            }
        }
        self.model.borrow_mut().flag(Prop::C08, "C08/accept-spin", format!("the accept loop did not block within {} iterations", SPIN_STEPS));
        self.aborted = Some("spin".into());
        false
    }

    /// the quiescent-state oracle: spare capacity + waiting connection + nothing left to process
    /// would the quiescent-state oracle report a stranded connection now?
    fn stranded_now(&self) -> bool {
        let m = self.model.borrow();
        if m.stopped || m.sut_paused || !m.pending_ctl.is_empty() {
            return false;
        }
        if !(0..m.workers.len()).any(|w| m.workers[w].alive && m.workers[w].in_rotation && m.load(w) < m.limit) {
            return false;
        }
        (0..m.backlog.len()).any(|l| !m.backlog[l].is_empty() && !self.backoff[l].map(|t| self.now_ms < t + 510).unwrap_or(false))
    }

    /// The oracle rests on "a connect() that has returned is visible to a zero-timeout poll of the
    /// listener". Under load the last ACK of a loopback handshake can be processed a moment later
    /// (softirq deferred): before a stranded connection is reported the kernel gets a few
    /// milliseconds of real time and the loop is stepped again. A late arrival raises a readiness
    /// event and is accepted then; a connection the loop has really lost stays where it is.
    fn check_quiescent(&mut self, after_drain: bool) {
        for ms in [2u64, 10, 50] {
            if !self.stranded_now() {
                break;
            }
            std::thread::sleep(Duration::from_millis(ms));
            self.kernel_grace += 1;
            if !self.quiesce() {
                return;
            }
        }
        self.check_quiescent_now(after_drain)
    }

    fn check_quiescent_now(&mut self, after_drain: bool) {
        let mut m = self.model.borrow_mut();
        if m.stopped || m.sut_paused || !m.pending_ctl.is_empty() {
            return;
        }
        let capacity = (0..m.workers.len()).any(|w| m.workers[w].alive && m.workers[w].in_rotation && m.load(w) < m.limit);
        if !capacity {
            if m.backlog.iter().any(|b| !b.is_empty()) {
                m.limit_constrained = true;
            }
            return;
        }
        for l in 0..m.backlog.len() {
            if m.backlog[l].is_empty() {
                continue;
            }
            if let Some(t) = self.backoff[l] {
                if self.now_ms < t + 510 {
                    continue; // inside the back-off window
                }
            }
            let waiting = m.backlog[l].len();
            let loads: Vec<usize> = (0..m.workers.len()).map(|w| m.load(w)).collect();
            let had_err = self.backoff[l].is_some();
            let msg = format!(
                "quiescent state{}: {} connection(s) wait on listener {} while a live worker has spare capacity (loads {:?}, limit {}) and nothing is left to process",
                if after_drain { " after the final drain" } else { "" }, waiting, l, loads, m.limit
            );
            if m.any_kill {
                m.flag(Prop::C08, "C08/not-resumed", msg.clone());
            }
            if had_err || self.labels.contains(&"pause") {
                m.flag(Prop::C05, "C05/stranded", msg.clone());
            }
            m.flag(Prop::C03, "C03/lost-wakeup", msg.clone());
            m.flag(Prop::C04, "C04/below-limit-skipped", msg.clone());
            m.flag(Prop::C01, "C01/never-served", msg);
            return;
        }
    }

    async fn run_op(&mut self, op: Op, nl: usize, nw: usize) {
        if trace_on() {
            let m = self.model.borrow();
            eprintln!("TRACE op {:?}  | loads {:?} alive {:?} rot {:?} backlog {:?} pending {:?}", op, (0..m.workers.len()).map(|w| (m.workers[w].queued.len(), m.workers[w].live.len(), m.workers[w].zombies.len())).collect::<Vec<_>>(), m.workers.iter().map(|s| s.alive).collect::<Vec<_>>(), m.workers.iter().map(|s| s.in_rotation).collect::<Vec<_>>(), m.backlog.iter().map(|b| b.len()).collect::<Vec<_>>(), m.pending_ctl);
        }
        match op {
            Op::Connect { l } => self.connect(vcore::pick(l, nl)),
            Op::ConnectBurst { l, n } => {
                let l = vcore::pick(l, nl);
                let big = { let m = self.model.borrow(); m.limit >= 1000 && m.conns.len() < 400 };
                if big {
                    let count = 130 + (n as usize % 200);
                    for _ in 0..count {
                        self.connect(l);
                    }
                    self.label("connect-burst");
                    if count > 256 {
                        self.label("connect-burst>256");
                    }
                } else {
                    self.connect(l);
                }
            }
            Op::ConnectRace { l } => {
                self.connect(vcore::pick(l, nl));
                self.model.borrow_mut().races_left += 1;
                self.label("race-armed");
            }
            Op::Step => {
                self.step();
            }
            Op::Quiesce => {
                if self.quiesce() {
                    self.check_quiescent(false);
                }
            }
            Op::Pickup { w } => {
                let w = vcore::pick(w, nw);
                self.model.borrow_mut().pickup(w, false);
            }
            Op::Finish { w, k } => {
                let w = vcore::pick(w, nw);
                let (was_sat, waiting, zombie) = {
                    let m = self.model.borrow();
                    (m.load(w) >= m.limit, m.backlog.iter().any(|b| !b.is_empty()), !m.workers[w].alive || (m.workers[w].live.is_empty() && !m.workers[w].zombies.is_empty()))
                };
                let had = {
                    let m = self.model.borrow();
                    !m.workers[w].live.is_empty() || !m.workers[w].zombies.is_empty()
                };
                self.model.borrow_mut().finish(w, k as usize);
                if had {
                    if was_sat && waiting {
                        self.label("finish-while-saturated-with-backlog");
                    }
                    if zombie {
                        self.label("late-finish-of-dead-worker");
                    }
                }
            }
            Op::Pause => {
                if !self.model.borrow().stopped {
                    self.wq.wake(Interest::Pause);
                    self.model.borrow_mut().pending_ctl.push(Ctl::Pause);
                    self.label("pause");
                }
            }
            Op::Resume => {
                if !self.model.borrow().stopped {
                    self.wq.wake(Interest::Resume);
                    self.model.borrow_mut().pending_ctl.push(Ctl::Resume);
                }
            }
            Op::CtlBurst { n } => {
                if !self.model.borrow().stopped && !self.model.borrow().pending_ctl.contains(&Ctl::Stop) {
                    let count = 18 + 2 * (n as usize % 12);
                    for i in 0..count {
                        if i % 2 == 0 {
                            self.wq.wake(Interest::Pause);
                            self.model.borrow_mut().pending_ctl.push(Ctl::Pause);
                        } else {
                            self.wq.wake(Interest::Resume);
                            self.model.borrow_mut().pending_ctl.push(Ctl::Resume);
                        }
                    }
                    self.label("pause");
                    self.label("ctl-burst");
                }
            }
            Op::Stop => {
                if !self.model.borrow().stopped && !self.model.borrow().pending_ctl.contains(&Ctl::Stop) {
                    self.wq.wake(Interest::Stop);
                    self.model.borrow_mut().pending_ctl.push(Ctl::Stop);
                    self.label("stop");
                }
            }
            Op::Inject { l, kind } => {
                let l = vcore::pick(l, nl);
                if self.model.borrow().stopped {
                    return;
                }
                let (raw, k) = match kind {
                    ErrKind::Aborted => (None, std::io::ErrorKind::ConnectionAborted),
                    ErrKind::Reset => (None, std::io::ErrorKind::ConnectionReset),
                    ErrKind::Refused => (None, std::io::ErrorKind::ConnectionRefused),
                    ErrKind::Emfile => (Some(libc::EMFILE), std::io::ErrorKind::Other),
                    ErrKind::Enfile => (Some(libc::ENFILE), std::io::ErrorKind::Other),
                    ErrKind::Other => (None, std::io::ErrorKind::Other),
                };
                // only one armed injection per listener at a time keeps the bookkeeping exact
                hv::clear_injected(self.fds[l]);
                hv::inject_accept_error(self.fds[l], raw, k);
                self.armed_fatal[l] = kind.fatal();
                self.label(if kind.fatal() { "inject-fatal" } else { "inject-per-connection" });
            }
            Op::Advance { ms } => {
                tokio::time::advance(Duration::from_millis(ms as u64)).await;
                self.now_ms += ms as u64;
            }
            Op::Kill { w } => {
                let w = vcore::pick(w, nw);
                let mut m = self.model.borrow_mut();
                if m.workers[w].alive {
                    let load = m.load(w);
                    let limit = m.limit;
                    let slot = &mut m.workers[w];
                    slot.alive = false;
                    slot.kills += 1;
                    slot.end = None; // drops conn_rx: queued Conns are closed
                    let queued: Vec<usize> = slot.queued.drain(..).collect();
                    let live: Vec<LiveConn> = slot.live.drain(..).collect();
                    slot.zombies.extend(live);
                    for id in queued {
                        m.conns[id].state = CState::Released;
                    }
                    m.any_kill = true;
                    drop(m);
                    self.label(if load == 0 { "kill-idle" } else if load >= limit { "kill-saturated" } else { "kill-partial" });
                }
            }
            Op::Replace => self.replace_faulted(),
        }
    }

    fn replace_faulted(&mut self) {
        let mut m = self.model.borrow_mut();
        if m.stopped {
            return;
        }
        let limit = m.limit;
        for idx in 0..m.workers.len() {
            let s = &mut m.workers[idx];
            if !s.alive && s.reported >= s.kills && s.kills > 0 && !s.in_rotation {
                let (h, end) = hv::fake_worker(idx, limit, &self.wq);
                s.end = Some(end);
                s.alive = true;
                s.in_rotation = false; // until the Worker interest has been consumed
                self.wq.wake(Interest::Worker(h));
                m.pending_ctl.push(Ctl::Worker);
                if !self.labels.contains(&"replace") {
                    self.labels.push("replace");
                }
                break;
            }
        }
    }

    /// final drain: resume, replace, release everything, let every back-off expire, serve the rest
    async fn drain(&mut self) {
        if self.aborted.is_some() || self.model.borrow().stopped {
            return;
        }
        let needs_resume = { let m = self.model.borrow(); m.sut_paused || m.pending_ctl.iter().any(|c| matches!(c, Ctl::Pause | Ctl::Resume)) };
        if needs_resume {
            self.run_op(Op::Resume, 1, 1).await;
        }
        for fd in self.fds.clone() {
            hv::clear_injected(fd);
        }
        for a in self.armed_fatal.iter_mut() {
            *a = false;
        }
        for round in 0..40 {
            if !self.quiesce() {
                return;
            }
            if self.model.borrow().stopped {
                return;
            }
            // replace every reported fault
            let before = self.model.borrow().pending_ctl.len();
            self.replace_faulted();
            if self.model.borrow().pending_ctl.len() > before {
                continue;
            }
            let nw = self.model.borrow().workers.len();
            let mut progress = false;
            for w in 0..nw {
                loop {
                    let picked = self.model.borrow_mut().pickup(w, true);
                    if !picked {
                        break;
                    }
                    progress = true;
                }
                loop {
                    let has = { let m = self.model.borrow(); !m.workers[w].live.is_empty() || !m.workers[w].zombies.is_empty() };
                    if !has {
                        break;
                    }
                    self.model.borrow_mut().finish(w, 0);
                    progress = true;
                }
            }
            if round == 0 {
                tokio::time::advance(Duration::from_millis(2000)).await;
                self.now_ms += 2000;
                progress = true;
            }
            if !progress {
                break;
            }
        }
        if self.aborted.is_none() {
            self.check_quiescent(true);
        }
    }
}

pub fn run_case(c: &Case, prop: Prop) -> CaseResult {
    thread_local! {
        static RT: tokio::runtime::Runtime = tokio::runtime::Builder::new_current_thread().enable_time().start_paused(true).build().unwrap();
    }
    RT.with(|rt| rt.block_on(run_async(c, prop)))
}

async fn run_async(c: &Case, prop: Prop) -> CaseResult {
    let nl = c.listeners.len().max(1);
    let nw = c.workers.max(1);
    let mut e = match Engine::new(c) {
        Ok(e) => e,
        Err(err) => return Err(Fail::new("harness/setup", format!("cannot set up listeners: {err}"))),
    };
    for op in &c.ops {
        if e.aborted.is_some() {
            break;
        }
        e.run_op(*op, nl, nw).await;
    }
    e.drain().await;
    // clean up: injected errors and socket files
    for fd in &e.fds {
        hv::clear_injected(*fd);
        hv::take_consumed_injections(*fd);
    }
    let _ = hv::take_dispatch_log();
    let paths: Vec<std::path::PathBuf> = e.addrs.iter().filter_map(|a| if let LAddr::Uds(p) = a { Some(p.clone()) } else { None }).collect();

    let mut obs = Obs::new();
    let labels = e.labels.clone();
    let aborted = e.aborted.clone();
    let kernel_grace = e.kernel_grace;
    let model = e.model.clone();
    drop(e);
    for p in paths {
        let _ = std::fs::remove_file(p);
    }
    let mut m = model.borrow_mut();

    // final accounting (C01): every connection is served once, legitimately released, or still
    // waiting because the server was stopped
    if aborted.is_none() {
        let stopped = m.stopped;
        let mut bad = vec![];
        for (id, cn) in m.conns.iter().enumerate() {
            match cn.state {
                CState::Served | CState::Released | CState::DroppedNoWorkers => {}
                // still waiting: legitimate when stopped or when no live worker has capacity
                // (the quiescent-state oracle has already judged the other case)
                CState::Backlog => {}
                CState::Queued | CState::Live if stopped => {}
                s => bad.push((id, s)),
            }
        }
        if !bad.is_empty() && !m.found.iter().any(|f| f.1 == "C01/never-served") {
            m.flag(Prop::C01, "C01/unaccounted", format!("after the final drain connections {:?} are neither served, released nor waiting on a stopped server", bad));
        }
        // C04: round-robin over the dispatch sequence (only without faults)
        if !m.any_kill {
            let w = m.workers.len();
            let d = m.dispatches.clone();
            let ever = m.workers.iter().any(|s| s.ever_saturated);
            if w >= 2 && !ever {
                for i in 0..d.len().saturating_sub(w - 1) {
                    let mut seen = vec![false; w];
                    for rec in &d[i..i + w] {
                        if seen[rec.worker] {
                            let seq: Vec<usize> = d.iter().map(|r| r.worker).collect();
                            m.flag(Prop::C04, "C04/not-round-robin", format!("no worker was ever saturated, yet dispatches {}..{} are not to {} distinct workers (sequence {:?})", i, i + w, w, seq));
                            break;
                        }
                        seen[rec.worker] = true;
                    }
                }
            } else if w >= 2 {
                // skip rule: S saturated and stable over the window, nobody outside S ever saturated before its end
                for i in 0..d.len() {
                    let s = &d[i].sat_before;
                    let ns = s.iter().filter(|b| **b).count();
                    let mlen = w - ns;
                    if ns == 0 || mlen < 2 || i + mlen > d.len() {
                        continue;
                    }
                    let stable = d[i..i + mlen].iter().all(|r| &r.sat_before == s);
                    // the worker receiving the last dispatch of the window must not have been saturated before the window either
                    if !stable {
                        continue;
                    }
                    // nobody outside S has been saturated at any point up to the end of the window
                    // (a released worker's re-admission is C03's oracle: the accept loop may not
                    // have processed its notification yet)
                    let clean = d[i + mlen - 1].ever_sat_after.iter().zip(s.iter()).all(|(was, ins)| !*was || *ins);
                    if !clean {
                        continue;
                    }
                    let mut seen = vec![false; w];
                    for rec in &d[i..i + mlen] {
                        if s[rec.worker] || seen[rec.worker] {
                            let seq: Vec<usize> = d.iter().map(|r| r.worker).collect();
                            m.flag(Prop::C04, "C04/skip-not-round-robin", format!("with workers {:?} saturated, dispatches {}..{} are not to distinct unsaturated workers (sequence {:?})", s, i, i + mlen, seq));
                            break;
                        }
                        seen[rec.worker] = true;
                    }
                }
            }
        }
    }

    let mine: Vec<&(Prop, &'static str, String)> = m.found.iter().filter(|f| f.0 == prop).collect();
    if let Some(f) = mine.first() {
        return Err(Fail::new(f.1, format!("{} [{} workers, limit {}, listeners {:?}]", f.2, c.workers, c.limit, c.listeners)));
    }
    for l in labels {
        obs.label(l);
    }
    obs.label_if(aborted.is_some(), "aborted");
    obs.label_if(kernel_grace > 0, "late-handshake-grace");
    obs.label_if(m.race_done > 0, "race-done");
    obs.label_if(m.rr_checked as usize > m.workers.len() && m.workers.len() >= 2, "rr-checked>W");
    obs.label_if(m.limit_constrained, "limit-constrained");
    obs.label_if(m.workers.iter().any(|s| s.ever_saturated), "saturated");
    obs.label_if(m.dispatches.len() > m.workers.len(), "dispatches>W");
    obs.label_if(m.conns.len() >= 3, "conns>=3");
    obs.label_if(m.workers.iter().any(|s| s.reported > 0), "fault-discovered");
    obs.label_if(m.pair_checked > 0, "pair-rule-checked");
    obs.label_if(m.kernel_reorders > 0, "accept-queue-not-in-connect-order");
    obs.label_if(m.pair_after_restart > 0, "pair-rule-after-restart");
    obs.label_if(m.conns.iter().any(|c| c.state == CState::DroppedNoWorkers), "dropped-no-workers");
    obs.label_if(c.listeners.contains(&LKind::Uds), "uds");
    Ok(obs)
}
