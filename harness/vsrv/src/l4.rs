//! L4 — the public API only: a real `Server` (accept thread, worker threads/arbiters), real clients.
//! The OS owns the schedule; the generator owns configuration, operation script and jitter.  Oracles
//! accept every outcome the properties allow; liveness is a generous time bound (5 s against
//! millisecond latencies) and a failed bound is re-judged by re-running the case alone.

use std::{
    collections::HashMap,
    future::Future,
    io::{Read, Write},
    os::unix::io::AsRawFd,
    pin::Pin,
    sync::{
        atomic::{AtomicBool, AtomicUsize, Ordering},
        mpsc, Arc, Mutex,
    },
    task::{Context, Poll},
    thread::{self, ThreadId},
    time::{Duration, Instant},
};

#[cfg(not(verif_nohooks))]
use actix_server::verif as hv;
use actix_server::{Server, ServerHandle};
use actix_service::{fn_factory, Service};
use serde::{Deserialize, Serialize};
use tokio::io::{AsyncRead, AsyncReadExt, AsyncWrite, AsyncWriteExt};
use vcore::{CaseResult, Fail, Obs};

use crate::kinds::{ErrKind, LKind};

/// without the hooks there is no accept-error injection: the ops that need it are skipped
#[cfg(verif_nohooks)]
mod hv {
    pub fn clear_injected(_fd: i32) {}
    pub fn take_consumed_injections(_fd: i32) -> usize {
        0
    }
    pub fn inject_accept_error(_fd: i32, _raw: Option<i32>, _kind: std::io::ErrorKind) {}
}

const BOUND: Duration = Duration::from_secs(5);

#[derive(Clone, Copy, Debug, Serialize, Deserialize, PartialEq)]
pub enum Op {
    Connect { l: u16 },
    /// the k-th held connection is released by its client (the service call finishes)
    Release { k: u16 },
    /// the k-th held connection finishes by a panic inside its handler future (the runtime
    /// contains it: the worker lives on, the connection is over)
    ReleasePanic { k: u16 },
    /// a client that connects, sends its id and resets the connection at once (RST): the server
    /// still accepts it and must hand it to the service (which then sees the error)
    ConnectAbort { l: u16 },
    /// wait until the server has served what it must serve (bounded), then check
    Settle,
    Pause,
    Resume,
    Inject { l: u16, kind: ErrKind },
    /// the next service call panics synchronously inside `Service::call` (kills that worker)
    PanicNext,
    Sleep { ms: u16 },
    /// nothing happens for 10.6 s (no client, no completion, no command): whatever the accept
    /// thread does on its own after a long quiet period must respect the limits too
    LongIdle,
    /// a fatal accept error on listener `l` with a client waiting there, while the accept thread
    /// is kept busy with other events: the client must be served roughly 500 ms later all the same
    BackoffBusy { l: u16 },
    /// a client whose handler occupies its worker thread (blocking section) for `ms` ms
    HoldBusy { l: u16, ms: u16 },
    Stop { graceful: bool, twice: bool, drop_future: bool },
    /// `n` connections one after the other, each finished as soon as it has been greeted, while
    /// another thread keeps sending (no-op) `resume()` commands: worker releases and commands race
    /// in the accept thread's waker queue; every connection must be served
    Churn { n: u16 },
    /// every service stops reporting readiness (connections dispatched from now on stay queued at
    /// their workers)
    GateClose,
    /// the services report readiness again: what was queued must now be served
    GateOpen,
    /// every worker dies (its service panics inside `call`) before the accept thread notices any
    /// of the faults; the next connection makes it discover and report all of them in one burst.
    /// Every one of them must be replaced and every replacement must serve.
    PanicAll,
}

#[derive(Clone, Debug, Serialize, Deserialize, PartialEq)]
pub struct Case {
    pub workers: usize,
    pub limit: usize,
    pub listeners: Vec<LKind>,
    pub shutdown_timeout_s: u64,
    pub ops: Vec<Op>,
    /// how listeners are registered with the builder: 0 = listen()/listen_uds() with a socket bound
    /// by the harness, 1 = bind()/bind_uds() by address, 2 = bind() with two addresses (two sockets,
    /// two tokens, one service factory) for TCP
    #[serde(default)]
    pub bind_mode: u8,
    /// service instances take 500 ms to drop while their worker thread unwinds from a panic
    #[serde(default)]
    pub slow_drop: bool,
    /// which order of builder setters configures the server (all orders mean the same server)
    #[serde(default)]
    pub setters: u8,
    /// shortly after a graceful stop has been requested, the handler of a connection in progress
    /// occupies its worker thread for about 2.6 s (the worker's shutdown checks run late), then the
    /// connection goes on; it is released only afterwards
    #[serde(default)]
    pub block_after_stop: bool,
    /// the service factory refuses the first instantiation after the initial ones (the first
    /// faulted worker cannot be replaced; later faults must still be handled)
    #[serde(default)]
    pub fail_first_restart: bool,
}

#[derive(Clone, Copy, Debug, PartialEq, Eq)]
pub enum Prop {
    C01,
    C02,
    C03,
    C04,
    C05,
    C06,
    C07,
    C08,
}

#[derive(Debug, Clone)]
struct Call {
    listener: usize,
    worker_thread: ThreadId,
    conn: u32,
}

struct World {
    calls: Mutex<Vec<Call>>,
    gauge: Mutex<HashMap<ThreadId, usize>>,
    over_limit: Mutex<Option<String>>,
    limit: usize,
    panic_next: AtomicBool,
    factory_count: AtomicUsize,
    block_ms: AtomicUsize,
    /// every entry into Service::call (before anything is read from the stream)
    call_count: AtomicUsize,
    /// a service instance dropped while its worker thread unwinds takes this long to drop
    drop_ms: AtomicUsize,
    /// while set every service call panics (and counts itself in `died`)
    panic_all: AtomicBool,
    died: AtomicUsize,
    /// while set `poll_ready` answers Pending (the wakers are kept and woken when it is cleared)
    gate_closed: AtomicBool,
    gate_wakers: Mutex<Vec<std::task::Waker>>,
    /// the service factory fails its n-th instantiation (usize::MAX: never)
    fail_at: AtomicUsize,
    factory_failed: AtomicBool,
}

impl World {
    fn open_gate(&self) {
        let mut g = self.gate_wakers.lock().unwrap();
        self.gate_closed.store(false, Ordering::SeqCst);
        for w in g.drain(..) {
            w.wake();
        }
    }
}

impl Drop for EchoSvc {
    fn drop(&mut self) {
        let ms = self.w.drop_ms.load(Ordering::SeqCst) as u64;
        if ms > 0 && thread::panicking() {
            thread::sleep(Duration::from_millis(ms));
        }
    }
}

struct EchoSvc {
    listener: usize,
    w: Arc<World>,
}

struct GaugeGuard(Arc<World>, ThreadId);
impl Drop for GaugeGuard {
    fn drop(&mut self) {
        if let Ok(mut g) = self.0.gauge.lock() {
            if let Some(n) = g.get_mut(&self.1) {
                *n = n.saturating_sub(1);
            }
        }
    }
}

impl<S> Service<S> for EchoSvc
where
    S: AsyncRead + AsyncWrite + Unpin + 'static,
{
    type Response = ();
    type Error = ();
    type Future = Pin<Box<dyn Future<Output = Result<(), ()>>>>;

    fn poll_ready(&self, cx: &mut Context<'_>) -> Poll<Result<(), ()>> {
        if self.w.gate_closed.load(Ordering::SeqCst) {
            let mut g = self.w.gate_wakers.lock().unwrap();
            // (checked again under the lock: the gate may have been opened meanwhile)
            if self.w.gate_closed.load(Ordering::SeqCst) {
                g.push(cx.waker().clone());
                return Poll::Pending;
            }
        }
        Poll::Ready(Ok(()))
    }

    fn call(&self, mut stream: S) -> Self::Future {
        self.w.call_count.fetch_add(1, Ordering::SeqCst);
        if self.w.panic_next.swap(false, Ordering::SeqCst) {
            panic!("verif: service panics inside call on purpose");
        }
        if self.w.panic_all.load(Ordering::SeqCst) {
            self.w.died.fetch_add(1, Ordering::SeqCst);
            panic!("verif: service panics inside call on purpose (all workers)");
        }
        let w = self.w.clone();
        let listener = self.listener;
        let tid = thread::current().id();
        // in progress from the moment the worker hands the connection over
        let n = {
            let mut g = w.gauge.lock().unwrap();
            let e = g.entry(tid).or_insert(0);
            *e += 1;
            *e
        };
        if n > w.limit {
            *w.over_limit.lock().unwrap() = Some(format!("worker thread {:?} has {} connections in progress, max_concurrent_connections is {}", tid, n, w.limit));
        }
        let guard = GaugeGuard(w.clone(), tid);
        Box::pin(async move {
            let _guard = guard;
            let mut id = [0u8; 4];
            if tokio::time::timeout(Duration::from_secs(10), stream.read_exact(&mut id)).await.map(|r| r.is_err()).unwrap_or(true) {
                return Ok(());
            }
            let idv = u32::from_le_bytes(id);
            w.calls.lock().unwrap().push(Call { listener, worker_thread: tid, conn: idv & 0x7fff_ffff });
            let _ = stream.write_all(b"G").await;
            let _ = stream.flush().await;
            if idv & 0x8000_0000 != 0 {
                // a handler that occupies the worker thread (blocking / CPU-bound section)
                let ms = w.block_ms.load(Ordering::SeqCst) as u64;
                std::thread::sleep(Duration::from_millis(ms));
                return Ok(());
            }
            // hold the connection until the client releases it (a byte) or goes away
            loop {
                let mut b = [0u8; 1];
                let _ = stream.read(&mut b).await;
                if b[0] == b'P' {
                    panic!("verif: handler future panics on purpose");
                }
                if b[0] == b'B' {
                    // a blocking section in the middle of the connection's life, then on with it
                    std::thread::sleep(Duration::from_millis(w.block_ms.load(Ordering::SeqCst) as u64));
                    continue;
                }
                break;
            }
            Ok(())
        })
    }
}

enum Sock {
    Tcp(std::net::TcpStream),
    Uds(std::os::unix::net::UnixStream),
}

impl Sock {
    fn set_nonblocking(&self, v: bool) {
        match self {
            Sock::Tcp(s) => {
                let _ = s.set_nonblocking(v);
            }
            Sock::Uds(s) => {
                let _ = s.set_nonblocking(v);
            }
        }
    }
    fn read1(&mut self) -> std::io::Result<usize> {
        let mut b = [0u8; 1];
        match self {
            Sock::Tcp(s) => s.read(&mut b),
            Sock::Uds(s) => s.read(&mut b),
        }
    }
    fn write_all(&mut self, d: &[u8]) -> std::io::Result<()> {
        match self {
            Sock::Tcp(s) => s.write_all(d),
            Sock::Uds(s) => s.write_all(d),
        }
    }
}

#[derive(Clone, Copy, Debug, PartialEq, Eq)]
enum CState {
    Waiting,
    Held,
    Released,
    Closed,
}

struct Client {
    id: u32,
    listener: usize,
    sock: Sock,
    state: CState,
    connected_at: Instant,
    served_at: Option<Instant>,
    connected_while_paused: bool,
    /// connected while a worker fault was being handled (after the panic, before the replacement)
    after_fault: bool,
    /// the connection whose service call panics
    doomed: bool,
}

impl Client {
    fn new(id: u32, listener: usize, sock: Sock, connected_while_paused: bool) -> Self {
        Client { id, listener, sock, state: CState::Waiting, connected_at: Instant::now(), served_at: None, connected_while_paused, after_fault: false, doomed: false }
    }
}

enum LAddr {
    Tcp(std::net::SocketAddr),
    /// one logical listener bound to two addresses (`bind` with an address list)
    Tcp2(std::net::SocketAddr, std::net::SocketAddr, std::cell::Cell<bool>),
    Uds(std::path::PathBuf),
}

impl LAddr {
    /// the address the next TCP client should use (alternates for a two-address listener)
    fn tcp(&self) -> Option<std::net::SocketAddr> {
        match self {
            LAddr::Tcp(a) => Some(*a),
            LAddr::Tcp2(a, b, flip) => {
                flip.set(!flip.get());
                Some(if flip.get() { *a } else { *b })
            }
            LAddr::Uds(_) => None,
        }
    }
}

/// listener names whose lexicographic order is the reverse of the registration order
fn lname(i: usize) -> String {
    ["zeta", "alpha", "beta"][i % 3].to_string()
}

fn free_port() -> std::io::Result<std::net::SocketAddr> {
    let l = std::net::TcpListener::bind("127.0.0.1:0")?;
    l.local_addr()
}

fn block_on<F: Future>(f: F) -> F::Output {
    thread_local! {
        static RT: tokio::runtime::Runtime = tokio::runtime::Builder::new_current_thread().enable_time().build().unwrap();
    }
    RT.with(|rt| rt.block_on(f))
}

static UDS_SEQ: AtomicUsize = AtomicUsize::new(0);

/// lets the server thread's system end when the run is over (however it ends)
struct ExitGuard(Arc<AtomicBool>);
impl Drop for ExitGuard {
    fn drop(&mut self) {
        self.0.store(true, Ordering::SeqCst);
    }
}

struct Run {
    handle: ServerHandle,
    /// a clone of the handle taken before any command was issued (commands alternate between them)
    handle2: ServerHandle,
    server_thread: Option<thread::JoinHandle<()>>,
    server_done: Arc<AtomicBool>,
    may_exit: ExitGuard,
    w: Arc<World>,
    clients: Vec<Client>,
    addrs: Vec<LAddr>,
    fds: Vec<i32>,
    paused: bool,
    pause_settled: bool,
    stopped: bool,
    found: Vec<(Prop, &'static str, String, bool)>, // (prop, sig, msg, liveness?)
    labels: Vec<&'static str>,
    workers: usize,
    limit: usize,
    panics: usize,
    backoff_until: Vec<Option<Instant>>,
    /// a worker thread is occupied by a blocking handler until then
    busy_until: Option<Instant>,
    /// clients that reset their connection right after connecting (they are still accepted)
    aborted: usize,
}

impl Run {
    fn flag(&mut self, p: Prop, sig: &'static str, msg: String, liveness: bool) {
        self.found.push((p, sig, msg, liveness));
    }
    fn label(&mut self, l: &'static str) {
        if !self.labels.contains(&l) {
            self.labels.push(l);
        }
    }

    /// poll every client socket once: greeting => held, EOF => closed
    fn refresh(&mut self) {
        for c in self.clients.iter_mut() {
            if matches!(c.state, CState::Closed | CState::Released) {
                continue;
            }
            c.sock.set_nonblocking(true);
            match c.sock.read1() {
                Ok(0) => c.state = CState::Closed,
                Ok(_) => {
                    if c.state == CState::Waiting {
                        c.state = CState::Held;
                        c.served_at = Some(Instant::now());
                    }
                }
                Err(e) if e.kind() == std::io::ErrorKind::WouldBlock => {}
                Err(_) => c.state = CState::Closed,
            }
        }
    }

    fn held(&self) -> usize {
        self.clients.iter().filter(|c| c.state == CState::Held).count()
    }
    fn waiting(&self) -> usize {
        self.clients.iter().filter(|c| c.state == CState::Waiting).count()
    }

    /// wait (bounded) until the server has taken every connection it has capacity for
    fn settle(&mut self, after_panic: bool) {
        let cap = self.workers * self.limit;
        let t0 = Instant::now();
        loop {
            self.refresh();
            let (h, wt) = (self.held(), self.waiting());
            let in_backoff = self.backoff_until.iter().any(|b| b.map(|t| Instant::now() < t).unwrap_or(false));
            let busy = self.busy_until.map(|t| Instant::now() < t + Duration::from_millis(300)).unwrap_or(false);
            let gated = self.w.gate_closed.load(Ordering::SeqCst);
            let want_more = !self.paused && !self.stopped && !busy && !gated && wt > 0 && h < cap;
            if !want_more {
                break;
            }
            if t0.elapsed() > BOUND + if in_backoff { Duration::from_millis(600) } else { Duration::ZERO } {
                let msg = format!("{} client(s) wait although only {} of {} connection slots ({} workers x limit {}) are in use, {:?} after the last change (paused={}, worker panics so far {})", wt, h, cap, self.workers, self.limit, t0.elapsed(), self.paused, self.panics);
                if after_panic || self.panics > 0 {
                    self.flag(Prop::C08, "C08/service-not-resumed", msg.clone(), true);
                }
                if self.labels.contains(&"pause") || self.labels.contains(&"inject") {
                    self.flag(Prop::C05, "C05/stranded", msg.clone(), true);
                }
                if self.panics == 0 {
                    self.flag(Prop::C03, "C03/not-served", msg.clone(), true);
                }
                self.flag(Prop::C01, "C01/never-served", msg, true);
                break;
            }
            thread::sleep(Duration::from_millis(2));
        }
        let over = self.w.over_limit.lock().unwrap().clone();
        if let Some(m) = over {
            if self.panics == 0 {
                self.flag(Prop::C02, "C02/limit-exceeded", m, false);
            }
        }
        if self.held() == cap && self.waiting() > 0 {
            self.label("saturated-with-waiting");
        }
    }
}

pub fn run_case(c: &Case, prop: Prop) -> CaseResult {
    let r = run_once(c, prop);
    // a missed time bound is re-judged alone (twice) before it counts
    if let Err((f, true)) = &r {
        let again = [run_once(c, prop), run_once(c, prop)];
        if std::env::var("VERIF_VERBOSE").is_ok() {
            eprintln!("[l4] liveness finding {} ({}); re-judged: {:?}", f.sig, f.msg, again.iter().map(|a| a.as_ref().map(|_| "ok").map_err(|e| e.0.sig.clone())).collect::<Vec<_>>());
        }
        if again.iter().all(|a| matches!(a, Err((_, _)))) {
            return Err(f.clone());
        }
        return match again.into_iter().find(|a| a.is_ok()) {
            Some(Ok(mut o)) => {
                o.label("liveness-bound-missed-once-then-met");
                Ok(o)
            }
            _ => Err(f.clone()),
        };
    }
    r.map_err(|e| e.0)
}

/// A port handed out by `free_port` can be taken by another thread of the check before the server
/// binds it: such a set-up failure is retried with fresh ports.
fn run_once(c: &Case, prop: Prop) -> Result<Obs, (Fail, bool)> {
    let mut last = None;
    for _ in 0..4 {
        match run_once_inner(c, prop) {
            Err((f, _)) if f.sig == "harness/setup" => last = Some(f),
            r => return r,
        }
    }
    Err((last.unwrap(), false))
}

fn run_once_inner(c: &Case, prop: Prop) -> Result<Obs, (Fail, bool)> {
    let nl = c.listeners.len().clamp(1, 2);
    let workers = if c.ops.contains(&Op::PanicAll) { c.workers.clamp(1, 32) } else { c.workers.clamp(1, 3) };
    let limit = if c.limit >= 12 { 12 } else { c.limit.clamp(1, 4) };
    let w = Arc::new(World { calls: Mutex::new(vec![]), gauge: Mutex::new(HashMap::new()), over_limit: Mutex::new(None), limit, panic_next: AtomicBool::new(false), factory_count: AtomicUsize::new(0), block_ms: AtomicUsize::new(0), call_count: AtomicUsize::new(0), drop_ms: AtomicUsize::new(if c.slow_drop { 500 } else { 0 }), panic_all: AtomicBool::new(false), died: AtomicUsize::new(0), gate_closed: AtomicBool::new(false), gate_wakers: Mutex::new(vec![]), fail_at: AtomicUsize::new(usize::MAX), factory_failed: AtomicBool::new(false) });
    // listeners are bound here so that their fds are known (accept-error injection is keyed by fd)
    let mut addrs = vec![];
    let mut fds = vec![];
    let mut tcp = vec![];
    let mut uds = vec![];
    // listeners registered by address (bind / bind_uds): (logical index, addresses) / (index, path)
    let mut tcp_bind: Vec<(usize, Vec<std::net::SocketAddr>)> = vec![];
    let mut used_ports: Vec<u16> = vec![];
    let mut uds_bind: Vec<(usize, std::path::PathBuf)> = vec![];
    let needs_fd = c.ops.iter().any(|o| matches!(o, Op::Inject { .. } | Op::BackoffBusy { .. }));
    let bind_mode = if needs_fd { 0 } else { c.bind_mode % 3 };
    for (i, k) in c.listeners.iter().take(nl).enumerate() {
        match k {
            LKind::Tcp if bind_mode == 0 => {
                let l = std::net::TcpListener::bind("127.0.0.1:0").map_err(|e| (Fail::new("harness/setup", format!("{e}")), false))?;
                addrs.push(LAddr::Tcp(l.local_addr().unwrap()));
                fds.push(l.as_raw_fd());
                tcp.push((i, l));
            }
            LKind::Tcp => {
                // ports not yet used by this case (a released port can be handed out again)
                let mut fresh = || -> Result<std::net::SocketAddr, (Fail, bool)> {
                    for _ in 0..20 {
                        let a = free_port().map_err(|e| (Fail::new("harness/setup", format!("{e}")), false))?;
                        if !used_ports.contains(&a.port()) {
                            used_ports.push(a.port());
                            return Ok(a);
                        }
                    }
                    Err((Fail::new("harness/setup", "no fresh port"), false))
                };
                let a = fresh()?;
                if bind_mode == 2 {
                    let b = fresh()?;
                    addrs.push(LAddr::Tcp2(a, b, std::cell::Cell::new(false)));
                    tcp_bind.push((i, vec![a, b]));
                } else {
                    addrs.push(LAddr::Tcp(a));
                    tcp_bind.push((i, vec![a]));
                }
                fds.push(-1);
            }
            LKind::Uds => {
                let p = std::env::temp_dir().join(format!("verif-l4-{}-{}.sock", std::process::id(), UDS_SEQ.fetch_add(1, Ordering::SeqCst)));
                let _ = std::fs::remove_file(&p);
                if bind_mode == 0 {
                    let l = std::os::unix::net::UnixListener::bind(&p).map_err(|e| (Fail::new("harness/setup", format!("{e}")), false))?;
                    fds.push(l.as_raw_fd());
                    uds.push((i, l));
                } else {
                    fds.push(-1);
                    uds_bind.push((i, p.clone()));
                }
                addrs.push(LAddr::Uds(p));
            }
        }
    }
    for fd in fds.iter().filter(|fd| **fd >= 0) {
        hv::clear_injected(*fd);
        hv::take_consumed_injections(*fd);
    }
    // one service instance per worker and socket (a two-address listener has two sockets)
    let nsock: usize = addrs.iter().map(|a| if matches!(a, LAddr::Tcp2(..)) { 2 } else { 1 }).sum();
    let (htx, hrx) = mpsc::channel::<Result<ServerHandle, String>>();
    let server_done = Arc::new(AtomicBool::new(false));
    let sd = server_done.clone();
    let sd2 = server_done.clone();
    let may_exit = ExitGuard(Arc::new(AtomicBool::new(false)));
    let may_exit2 = may_exit.0.clone();
    let w2 = w.clone();
    let timeout = c.shutdown_timeout_s.clamp(1, 30);
    let setters = c.setters;
    let server_thread = thread::Builder::new()
        .name("l4-server".into())
        .spawn(move || {
            let r = actix_rt::System::new().block_on(async move {
                // the same configuration through different orders of the setters, with the
                // unrelated setters (blocking-thread pool size, listen backlog) in between
                let mut b = match setters % 4 {
                    0 => Server::build().workers(workers).max_concurrent_connections(limit).shutdown_timeout(timeout).disable_signals().backlog(64),
                    1 => Server::build().max_concurrent_connections(limit).worker_max_blocking_threads(8).workers(workers).backlog(128).shutdown_timeout(timeout).disable_signals(),
                    2 => Server::build().backlog(16).worker_max_blocking_threads(1).shutdown_timeout(timeout).max_concurrent_connections(limit).workers(workers).disable_signals(),
                    _ => Server::build().disable_signals().shutdown_timeout(timeout).workers(workers).max_concurrent_connections(limit).worker_max_blocking_threads(512),
                };
                for (i, l) in tcp {
                    let w3 = w2.clone();
                    b = match b.listen(lname(i), l, move || {
                        let w4 = w3.clone();
                        fn_factory(move || {
                            let w5 = w4.clone();
                            async move {
                                let nth = w5.factory_count.fetch_add(1, Ordering::SeqCst);
                                if nth == w5.fail_at.load(Ordering::SeqCst) {
                                    // the factory refuses this instantiation (a replacement that cannot be started)
                                    w5.factory_failed.store(true, Ordering::SeqCst);
                                    return Err(());
                                }
                                Ok::<_, ()>(EchoSvc { listener: i, w: w5 })
                            }
                        })
                    }) {
                        Ok(b) => b,
                        Err(e) => {
                            let _ = htx.send(Err(format!("{e}")));
                            return;
                        }
                    };
                }
                for (i, l) in uds {
                    let w3 = w2.clone();
                    b = match b.listen_uds(lname(i), l, move || {
                        let w4 = w3.clone();
                        fn_factory(move || {
                            let w5 = w4.clone();
                            async move {
                                let nth = w5.factory_count.fetch_add(1, Ordering::SeqCst);
                                if nth == w5.fail_at.load(Ordering::SeqCst) {
                                    // the factory refuses this instantiation (a replacement that cannot be started)
                                    w5.factory_failed.store(true, Ordering::SeqCst);
                                    return Err(());
                                }
                                Ok::<_, ()>(EchoSvc { listener: i, w: w5 })
                            }
                        })
                    }) {
                        Ok(b) => b,
                        Err(e) => {
                            let _ = htx.send(Err(format!("{e}")));
                            return;
                        }
                    };
                }
                for (i, list) in tcp_bind {
                    let w3 = w2.clone();
                    b = match b.bind(lname(i), &list[..], move || {
                        let w4 = w3.clone();
                        fn_factory(move || {
                            let w5 = w4.clone();
                            async move {
                                let nth = w5.factory_count.fetch_add(1, Ordering::SeqCst);
                                if nth == w5.fail_at.load(Ordering::SeqCst) {
                                    // the factory refuses this instantiation (a replacement that cannot be started)
                                    w5.factory_failed.store(true, Ordering::SeqCst);
                                    return Err(());
                                }
                                Ok::<_, ()>(EchoSvc { listener: i, w: w5 })
                            }
                        })
                    }) {
                        Ok(b) => b,
                        Err(e) => {
                            let _ = htx.send(Err(format!("bind: {e}")));
                            return;
                        }
                    };
                }
                for (i, path) in uds_bind {
                    let w3 = w2.clone();
                    b = match b.bind_uds(lname(i), &path, move || {
                        let w4 = w3.clone();
                        fn_factory(move || {
                            let w5 = w4.clone();
                            async move {
                                let nth = w5.factory_count.fetch_add(1, Ordering::SeqCst);
                                if nth == w5.fail_at.load(Ordering::SeqCst) {
                                    // the factory refuses this instantiation (a replacement that cannot be started)
                                    w5.factory_failed.store(true, Ordering::SeqCst);
                                    return Err(());
                                }
                                Ok::<_, ()>(EchoSvc { listener: i, w: w5 })
                            }
                        })
                    }) {
                        Ok(b) => b,
                        Err(e) => {
                            let _ = htx.send(Err(format!("bind_uds: {e}")));
                            return;
                        }
                    };
                }
                let srv = b.run();
                let _ = htx.send(Ok(srv.handle()));
                let _ = srv.await;
                sd2.store(true, Ordering::SeqCst);
                // the system outlives the server (an application goes on after `srv.await`): workers
                // that survived the stop are not swept away by the end of the system
                let t0 = Instant::now();
                while !may_exit2.load(Ordering::SeqCst) && t0.elapsed() < Duration::from_secs(120) {
                    actix_rt::time::sleep(Duration::from_millis(2)).await;
                }
            });
            let _ = r;
            sd.store(true, Ordering::SeqCst);
        })
        .map_err(|e| (Fail::new("harness/setup", format!("{e}")), false))?;
    let handle = match hrx.recv_timeout(Duration::from_secs(20)) {
        Ok(Ok(h)) => h,
        Ok(Err(e)) => return Err((Fail::new("harness/setup", e), false)),
        Err(_) => return Err((Fail::new("harness/setup", "server did not start"), false)),
    };
    // `Server` is lazy: the workers are started by the first poll of `srv.await`, after the handle
    // has been handed out. Wait until every worker has created its services.
    {
        // every worker instantiates the registered factories once: one per listening socket in the
        // code as it stands, at least one per registration in any case (how many exactly is not
        // part of any property: what is observed here is what a replacement worker must repeat)
        let t0 = Instant::now();
        let mut last = (0usize, Instant::now());
        loop {
            let n = w.factory_count.load(Ordering::SeqCst);
            if n != last.0 {
                last = (n, Instant::now());
            }
            if n >= workers * nsock || (n >= workers * nl && n % workers == 0 && last.1.elapsed() > Duration::from_millis(300)) {
                break;
            }
            if t0.elapsed() > Duration::from_secs(20) {
                return Err((Fail::new("harness/setup", "workers did not start"), false));
            }
            thread::sleep(Duration::from_millis(1));
        }
    }
    let initial_factories = w.factory_count.load(Ordering::SeqCst);
    // instantiations per worker, as observed
    let nsock = (initial_factories / workers).max(1);
    if c.fail_first_restart && workers >= 2 {
        // the first instantiation after the initial ones is refused: that worker cannot be replaced
        w.fail_at.store(initial_factories, Ordering::SeqCst);
    }
    let mut r = Run {
        handle2: handle.clone(),
        handle,
        server_thread: Some(server_thread),
        server_done,
        may_exit,
        w: w.clone(),
        clients: vec![],
        addrs,
        fds,
        paused: false,
        pause_settled: false,
        stopped: false,
        found: vec![],
        labels: vec![],
        workers,
        limit,
        panics: 0,
        backoff_until: vec![None; nl],
        busy_until: None,
        aborted: 0,
    };
    match bind_mode {
        1 => r.label("registered-by-address"),
        2 => r.label("registered-by-address-list"),
        _ => {}
    }
    let mut next_id = 0u32;
    let mut refused = false;
    let mut stop_checked = false;
    for op in &c.ops {
        // a finding for the property under test ends the script (each missed bound costs seconds)
        if r.stopped || r.found.iter().any(|f| f.0 == prop) {
            break;
        }
        match *op {
            Op::Connect { l } => {
                if r.clients.len() >= 12 {
                    continue;
                }
                let l = vcore::pick(l, nl);
                let sock = match &r.addrs[l] {
                    LAddr::Uds(p) => std::os::unix::net::UnixStream::connect(p).map(Sock::Uds),
                    t => std::net::TcpStream::connect_timeout(&t.tcp().unwrap(), BOUND).map(|s| {
                        let _ = socket2::SockRef::from(&s).set_linger(Some(Duration::ZERO));
                        Sock::Tcp(s)
                    }),
                };
                match sock {
                    Ok(mut s) => {
                        let id = next_id;
                        next_id += 1;
                        let _ = s.write_all(&id.to_le_bytes());
                        let paused_now = r.paused && r.pause_settled;
                        r.clients.push(Client::new(id, l, s, paused_now));
                    }
                    Err(e) => {
                        let kind = match &r.addrs[l] {
                            LAddr::Uds(_) => "uds",
                            _ => "tcp",
                        };
                        r.flag(Prop::C05, "C05/not-connectable", format!("connect to {} listener {} failed with {:?} although the server has not been stopped (paused={})", kind, l, e.kind(), r.paused), false);
                    }
                }
            }
            Op::ConnectAbort { l } => {
                if r.paused || r.clients.len() + r.aborted >= 12 {
                    continue;
                }
                let l = vcore::pick(l, nl);
                let Some(a) = r.addrs[l].tcp() else { continue };
                if let Ok(mut s) = std::net::TcpStream::connect_timeout(&a, BOUND) {
                    let _ = socket2::SockRef::from(&s).set_linger(Some(Duration::ZERO));
                    let id = next_id;
                    next_id += 1;
                    let _ = s.write_all(&id.to_le_bytes());
                    drop(s); // SO_LINGER 0: RST
                    r.aborted += 1;
                    r.label("client-reset");
                    if r.held() == r.workers * r.limit {
                        r.label("client-reset-in-backlog");
                    }
                }
            }
            Op::Release { k } | Op::ReleasePanic { k } => {
                r.refresh();
                let by_panic = matches!(op, Op::ReleasePanic { .. });
                let held: Vec<usize> = r.clients.iter().enumerate().filter(|(_, c)| c.state == CState::Held).map(|(i, _)| i).collect();
                if !held.is_empty() {
                    let i = held[vcore::pick(k, held.len())];
                    let sat = r.held() == r.workers * r.limit && r.waiting() > 0;
                    let _ = r.clients[i].sock.write_all(if by_panic { b"P" } else { b"x" });
                    r.clients[i].state = CState::Released;
                    if sat {
                        r.label("release-while-saturated");
                    }
                    if by_panic {
                        r.label("handler-panic");
                        if sat {
                            r.label("handler-panic-while-saturated");
                        }
                    }
                }
            }
            Op::Settle => r.settle(false),
            Op::Pause => {
                block_on(r.handle.pause());
                // the command is delivered asynchronously to the accept thread: let it take effect
                thread::sleep(Duration::from_millis(60));
                r.paused = true;
                r.pause_settled = true;
                r.label("pause");
            }
            Op::Resume => {
                // connections that arrived while paused must not have been served before this point
                // (looked at before the resume command is sent: the accept thread reacts within µs)
                r.refresh();
                let early: Vec<u32> = r.clients.iter().filter(|c| c.connected_while_paused && c.served_at.is_some() && c.state == CState::Held).map(|c| c.id).collect();
                if r.paused && !early.is_empty() {
                    r.flag(Prop::C05, "C05/dispatch-while-paused", format!("connections {:?} arrived after the pause had taken effect and were served before resume", early), false);
                }
                for c in r.clients.iter_mut() {
                    c.connected_while_paused = false;
                }
                block_on(r.handle2.resume());
                r.paused = false;
                r.pause_settled = false;
            }
            Op::Inject { l, kind } => {
                if cfg!(verif_nohooks) {
                    continue;
                }
                let l = vcore::pick(l, nl);
                let (raw, k) = match kind {
                    ErrKind::Aborted => (None, std::io::ErrorKind::ConnectionAborted),
                    ErrKind::Reset => (None, std::io::ErrorKind::ConnectionReset),
                    ErrKind::Refused => (None, std::io::ErrorKind::ConnectionRefused),
                    ErrKind::Emfile => (Some(libc::EMFILE), std::io::ErrorKind::Other),
                    ErrKind::Enfile => (Some(libc::ENFILE), std::io::ErrorKind::Other),
                    ErrKind::Other => (None, std::io::ErrorKind::Other),
                };
                hv::clear_injected(r.fds[l]);
                hv::inject_accept_error(r.fds[l], raw, k);
                if kind.fatal() {
                    r.backoff_until[l] = Some(Instant::now() + Duration::from_millis(5600));
                }
                r.label("inject");
            }
            Op::PanicNext => {
                if r.w.gate_closed.load(Ordering::SeqCst) {
                    continue;
                }
                r.w.panic_next.store(true, Ordering::SeqCst);
                // the connection that triggers the panic
                r.refresh();
                let before = r.w.factory_count.load(Ordering::SeqCst);
                if !r.paused && r.clients.len() < 12 && r.held() < r.workers * r.limit && r.waiting() == 0 {
                    if let Some(a) = &r.addrs[0].tcp() {
                        if let Ok(mut s) = std::net::TcpStream::connect_timeout(a, BOUND) {
                            let _ = socket2::SockRef::from(&s).set_linger(Some(Duration::ZERO));
                            let id = next_id;
                            next_id += 1;
                            let _ = s.write_all(&id.to_le_bytes());
                            let mut cl = Client::new(id, 0, Sock::Tcp(s), false);
                            cl.doomed = true;
                            r.clients.push(cl);
                        }
                    }
                    // wait until the panic has happened
                    let t0 = Instant::now();
                    while r.w.panic_next.load(Ordering::SeqCst) && t0.elapsed() < BOUND {
                        thread::sleep(Duration::from_millis(2));
                    }
                    if !r.w.panic_next.load(Ordering::SeqCst) {
                        r.panics += 1;
                        r.label("worker-panic");
                        // the connection that hit the panic is gone; connections held by that worker die with it
                        thread::sleep(Duration::from_millis(50));
                        // connections that arrive from now on must not be given to the dead worker:
                        // one per worker, so that the rotation passes over the dead one
                        if r.workers >= 2 {
                            for _ in 0..r.workers {
                                if r.clients.len() >= 12 {
                                    break;
                                }
                                if let Some(a) = &r.addrs[0].tcp() {
                                    if let Ok(mut s) = std::net::TcpStream::connect_timeout(a, BOUND) {
                                        let _ = socket2::SockRef::from(&s).set_linger(Some(Duration::ZERO));
                                        let id = next_id;
                                        next_id += 1;
                                        let _ = s.write_all(&id.to_le_bytes());
                                        let mut cl = Client::new(id, 0, Sock::Tcp(s), false);
                                        cl.after_fault = true;
                                        r.clients.push(cl);
                                    }
                                }
                            }
                            r.label("connects-right-after-fault");
                        }
                        // a replacement worker re-creates its services: exactly one instantiation per listener and fault
                        let t1 = Instant::now();
                        while r.w.factory_count.load(Ordering::SeqCst) < before + nsock && t1.elapsed() < BOUND {
                            thread::sleep(Duration::from_millis(5));
                            // the fault is discovered by the next dispatch: keep one probe client going
                            if t1.elapsed() > Duration::from_millis(100) && r.clients.len() < 12 && r.waiting() == 0 {
                                if let Some(a) = &r.addrs[0].tcp() {
                                    if let Ok(mut s) = std::net::TcpStream::connect_timeout(a, BOUND) {
                                        let _ = socket2::SockRef::from(&s).set_linger(Some(Duration::ZERO));
                                        let id = next_id;
                                        next_id += 1;
                                        let _ = s.write_all(&id.to_le_bytes());
                                        r.clients.push(Client::new(id, 0, Sock::Tcp(s), false));
                                    }
                                }
                            }
                            r.refresh();
                        }
                        if r.w.factory_failed.swap(false, Ordering::SeqCst) {
                            // this replacement was refused by the factory: the server goes on with one worker less
                            r.label("replacement-refused-by-factory");
                            r.workers -= 1;
                            refused = true;
                            thread::sleep(Duration::from_millis(50));
                        } else if r.w.factory_count.load(Ordering::SeqCst) < before + nsock {
                            let msg = format!("a worker died (fault number {}{}) but no replacement was started within {:?}: {} of {} expected service instantiations", r.panics, if refused { ", after an earlier replacement had been refused by the service factory" } else { "" }, BOUND, r.w.factory_count.load(Ordering::SeqCst) - before, nsock);
                            r.flag(Prop::C08, "C08/not-replaced", msg, true);
                        }
                        if r.workers == 0 {
                            break;
                        }
                        r.settle(true);
                        // with two or more workers a live worker exists at every moment (one fault at
                        // a time): nothing that arrived after the fault may be discarded
                        let lost: Vec<u32> = r.clients.iter().filter(|c| c.after_fault && c.state == CState::Closed && c.served_at.is_none()).map(|c| c.id).collect();
                        if !lost.is_empty() {
                            let msg = format!("connections {:?} arrived after a worker had died and were discarded (closed without reaching a service) although another worker was alive", lost);
                            r.flag(Prop::C08, "C08/lost-after-fault", msg.clone(), true);
                            r.flag(Prop::C01, "C01/discarded", msg, true);
                        }
                        for c in r.clients.iter_mut() {
                            c.after_fault = false;
                        }
                        let now = r.w.factory_count.load(Ordering::SeqCst);
                        if now > before + nsock {
                            r.flag(Prop::C08, "C08/too-many-replacements", format!("one worker fault led to {} service instantiations ({} per worker at start-up)", now - before, nsock), false);
                        }
                    } else {
                        r.w.panic_next.store(false, Ordering::SeqCst);
                    }
                } else {
                    r.w.panic_next.store(false, Ordering::SeqCst);
                }
            }
            Op::Churn { n } => {
                r.refresh();
                if r.paused || r.stopped || r.busy_until.is_some() || r.waiting() > 0 || r.held() >= r.workers * r.limit || r.w.gate_closed.load(Ordering::SeqCst) {
                    continue;
                }
                let Some(a) = r.addrs[0].tcp() else { continue };
                let n = 500 + (n as usize % 2500);
                let stop = Arc::new(AtomicBool::new(false));
                let chatter = {
                    let stop = stop.clone();
                    let h = r.handle2.clone();
                    thread::spawn(move || {
                        while !stop.load(Ordering::SeqCst) {
                            block_on(h.resume());
                        }
                    })
                };
                let mut stalled = None;
                for i in 0..n {
                    let Ok(mut s) = std::net::TcpStream::connect_timeout(&a, BOUND) else { continue };
                    let _ = socket2::SockRef::from(&s).set_linger(Some(Duration::ZERO));
                    let id = 0x2000_0000 + next_id;
                    next_id += 1;
                    let _ = s.write_all(&id.to_le_bytes());
                    let _ = s.set_read_timeout(Some(BOUND));
                    let mut b = [0u8; 1];
                    if s.read_exact(&mut b).is_err() {
                        stalled = Some(i);
                        if std::env::var("VERIF_VERBOSE").is_ok() {
                            eprintln!("[l4] churn stall at #{i}: call_count {} calls {} gauge {:?}", r.w.call_count.load(Ordering::SeqCst), r.w.calls.lock().unwrap().len(), r.w.gauge.lock().unwrap());
                            eprintln!("[l4] open fds: {}", std::fs::read_dir("/proc/self/fd").map(|d| d.count()).unwrap_or(0));
                            if let Ok(o) = std::process::Command::new("ss").args(["-tan"]).output() {
                                let text = String::from_utf8_lossy(&o.stdout).to_string();
                                let mine: Vec<&str> = text.lines().filter(|l| l.contains(&format!(":{}", a.port()))).collect();
                                eprintln!("[l4] ss lines with port {}: {}", a.port(), mine.len());
                                for l in mine.iter().take(6) {
                                    eprintln!("[l4] ss: {l}");
                                }
                            }
                            if let Ok(o) = std::process::Command::new("true").args(["-ltn"]).output() {
                                for l in String::from_utf8_lossy(&o.stdout).lines().filter(|l| l.contains(&format!(":{} ", a.port()))) {
                                    eprintln!("[l4] ss: {l}");
                                }
                            }
                            let _ = s.set_read_timeout(Some(Duration::from_secs(10)));
                            let later = s.read_exact(&mut b).is_ok();
                            eprintln!("[l4] ... after 10 more seconds (chatter still running): served={later} call_count {}", r.w.call_count.load(Ordering::SeqCst));
                            stop.store(true, Ordering::SeqCst);
                            thread::sleep(Duration::from_millis(200));
                            let _ = s.set_read_timeout(Some(Duration::from_secs(3)));
                            let later = s.read_exact(&mut b).is_ok();
                            eprintln!("[l4] ... chatter stopped, 3 more seconds: served={later}");
                            if let Ok(mut s2) = std::net::TcpStream::connect_timeout(&a, BOUND) {
                                let _ = s2.write_all(&0x2fff_ffffu32.to_le_bytes());
                                let _ = s2.set_read_timeout(Some(Duration::from_secs(3)));
                                eprintln!("[l4] ... another connection: served={} ; first one now served={}", s2.read_exact(&mut b).is_ok(), s.read_exact(&mut b).is_ok());
                            }
                        }
                        break;
                    }
                }
                stop.store(true, Ordering::SeqCst);
                let _ = chatter.join();
                r.label("churn-with-command-chatter");
                if let Some(i) = stalled {
                    let msg = format!("connection #{} of a run of {} (each closed by the client as soon as it was greeted; {} of {} slots held by others; a second thread sending resume() commands) was not served within {:?}", i, n, r.held(), r.workers * r.limit, BOUND);
                    r.flag(Prop::C03, "C03/not-served", msg.clone(), true);
                    r.flag(Prop::C04, "C04/below-limit-skipped-e2e", msg.clone(), true);
                    r.flag(Prop::C01, "C01/never-served", msg, true);
                }
            }
            Op::GateClose => {
                if r.paused || r.stopped {
                    continue;
                }
                r.w.gate_closed.store(true, Ordering::SeqCst);
                r.label("services-not-ready");
            }
            Op::GateOpen => {
                if r.w.gate_closed.load(Ordering::SeqCst) {
                    r.refresh();
                    if r.waiting() > 0 {
                        r.label("queued-while-not-ready-then-ready");
                    }
                    // clients that wait (made one after the other), per listener, in connect order
                    let queued: Vec<(usize, u32)> = r.clients.iter().filter(|c| c.state == CState::Waiting).map(|c| (c.listener, c.id)).collect();
                    r.w.open_gate();
                    if r.workers == 1 && !r.paused && queued.len() >= 3 {
                        r.settle(false);
                        // C07: queued connections wait in order - with one worker the service of a
                        // listener is called for them in the order in which they connected
                        let calls = r.w.calls.lock().unwrap().clone();
                        for l in 0..nl {
                            // (a listener with two sockets has two accept queues: no order between them)
                            if matches!(r.addrs[l], LAddr::Tcp2(..)) {
                                continue;
                            }
                            let want: Vec<u32> = queued.iter().filter(|(ql, _)| *ql == l).map(|(_, id)| *id).collect();
                            let got: Vec<u32> = calls.iter().filter(|c| want.contains(&c.conn)).map(|c| c.conn).collect();
                            let want_served: Vec<u32> = want.iter().copied().filter(|id| got.contains(id)).collect();
                            if want_served.len() >= 3 {
                                r.label(">=3-queued-connections-order-checked");
                            }
                            if got != want_served {
                                let msg = format!("connections {:?} connected to listener {} in this order (one after the other) while its service was not ready and waited at the only worker; once it was ready the service was called for them in the order {:?}", want_served, l, got);
                                r.flag(Prop::C07, "C07/not-fifo-e2e", msg, true);
                            }
                        }
                    }
                }
            }
            Op::PanicAll => {
                r.refresh();
                if r.paused || r.busy_until.is_some() || r.held() > 0 || r.waiting() > 0 || r.workers < 2 || r.w.gate_closed.load(Ordering::SeqCst) {
                    continue;
                }
                let Some(a) = r.addrs[0].tcp() else { continue };
                // everything released so far must have left its worker
                let t0 = Instant::now();
                while r.w.gauge.lock().unwrap().values().sum::<usize>() > 0 && t0.elapsed() < BOUND {
                    thread::sleep(Duration::from_millis(2));
                }
                let before = r.w.factory_count.load(Ordering::SeqCst);
                let died0 = r.w.died.load(Ordering::SeqCst);
                r.w.panic_all.store(true, Ordering::SeqCst);
                // one poison connection per worker of the rotation
                let mut poison = vec![];
                for _ in 0..r.workers {
                    if let Ok(s) = std::net::TcpStream::connect_timeout(&a, BOUND) {
                        let _ = socket2::SockRef::from(&s).set_linger(Some(Duration::ZERO));
                        poison.push(s);
                    }
                }
                let t0 = Instant::now();
                let mut last = (died0, Instant::now());
                loop {
                    let d = r.w.died.load(Ordering::SeqCst);
                    if d != last.0 {
                        last = (d, Instant::now());
                    }
                    if d - died0 >= r.workers || last.1.elapsed() > Duration::from_millis(400) || t0.elapsed() > BOUND {
                        break;
                    }
                    thread::sleep(Duration::from_millis(2));
                }
                r.w.panic_all.store(false, Ordering::SeqCst);
                thread::sleep(Duration::from_millis(100));
                drop(poison);
                let died = r.w.died.load(Ordering::SeqCst) - died0;
                if died == 0 {
                    continue;
                }
                if std::env::var("VERIF_TRACE").is_ok() { eprintln!("[l4] panic-all: {} of {} workers died", died, r.workers); }
                r.panics += died;
                r.label("worker-panic");
                if died >= 17 {
                    r.label(">=17-workers-dead-at-once");
                }
                // probes: connect, say who you are, wait for the greeting, go away
                let mut probe = |r: &mut Run, wait: Duration| -> bool {
                    let Ok(mut s) = std::net::TcpStream::connect_timeout(&a, BOUND) else { return false };
                    let _ = socket2::SockRef::from(&s).set_linger(Some(Duration::ZERO));
                    let id = 0x4000_0000 + next_id;
                    next_id += 1;
                    let _ = s.write_all(&id.to_le_bytes());
                    let _ = s.set_read_timeout(Some(wait));
                    let mut b = [0u8; 1];
                    let ok = s.read_exact(&mut b).is_ok();
                    drop(s);
                    if ok {
                        // its handler has left the worker before the next probe
                        let t0 = Instant::now();
                        while r.w.gauge.lock().unwrap().values().sum::<usize>() > 0 && t0.elapsed() < BOUND {
                            thread::sleep(Duration::from_millis(1));
                        }
                    }
                    ok
                };
                // every faulted worker is replaced: one instantiation per listening socket and fault
                let want = before + died * nsock;
                let t1 = Instant::now();
                while r.w.factory_count.load(Ordering::SeqCst) < want && t1.elapsed() < BOUND * 3 {
                    // the faults are discovered by a dispatch
                    probe(&mut r, Duration::from_millis(100));
                    thread::sleep(Duration::from_millis(20));
                }
                let now = r.w.factory_count.load(Ordering::SeqCst);
                if now < want {
                    r.flag(Prop::C08, "C08/not-all-replaced", format!("{} workers died at once but only {} replacement service instantiations happened within {:?} (expected {}: {} per worker as at start-up)", died, now - before, BOUND * 3, died * nsock, nsock), true);
                    continue;
                }
                thread::sleep(Duration::from_millis(150));
                let now = r.w.factory_count.load(Ordering::SeqCst);
                if now > want {
                    r.flag(Prop::C08, "C08/too-many-replacements", format!("{} worker faults led to {} service instantiations ({} per worker at start-up)", died, now - before, nsock), false);
                }
                // every replacement is in the rotation: two rounds of connections reach every worker
                let calls0 = r.w.calls.lock().unwrap().len();
                let mut unserved = 0;
                for _ in 0..2 * r.workers {
                    if !probe(&mut r, BOUND) {
                        unserved += 1;
                    }
                }
                if unserved > 0 {
                    r.flag(Prop::C08, "C08/service-not-resumed", format!("{} of {} connections made after all {} replacements had started were not served", unserved, 2 * r.workers, died), true);
                    continue;
                }
                let threads: std::collections::HashSet<ThreadId> = r.w.calls.lock().unwrap()[calls0..].iter().map(|c| c.worker_thread).collect();
                if threads.len() < r.workers {
                    r.flag(Prop::C08, "C08/replacement-not-in-rotation", format!("after {} of {} workers were replaced, {} connections made one after the other (each finished before the next) were served by only {} distinct worker threads", died, r.workers, 2 * r.workers, threads.len()), false);
                }
            }
            Op::Sleep { ms } => thread::sleep(Duration::from_millis(ms as u64 % 700)),
            Op::LongIdle => {
                r.refresh();
                if r.held() == r.workers * r.limit && r.waiting() > 0 {
                    r.label("saturated-and-quiet-for-10s");
                }
                thread::sleep(Duration::from_millis(10_600));
                r.refresh();
                let cap = r.workers * r.limit;
                if r.held() > cap {
                    let msg = format!("{} connections are being served at once after a quiet period of 10.6 s; {} workers x limit {} allow {}", r.held(), r.workers, r.limit, cap);
                    r.flag(Prop::C02, "C02/limit-exceeded", msg, false);
                }
            }
            Op::HoldBusy { l, ms } => {
                r.refresh();
                if r.paused || r.busy_until.is_some() || r.clients.len() >= 11 || r.held() >= r.workers * r.limit || r.waiting() > 0 || r.w.gate_closed.load(Ordering::SeqCst) {
                    continue;
                }
                let l = vcore::pick(l, nl);
                let Some(a) = &r.addrs[l].tcp() else { continue };
                let Ok(mut s) = std::net::TcpStream::connect_timeout(a, BOUND) else { continue };
                let _ = socket2::SockRef::from(&s).set_linger(Some(Duration::ZERO));
                let ms = 2500 + (ms as u64 % 1000);
                r.w.block_ms.store(ms as usize, Ordering::SeqCst);
                let id = next_id;
                next_id += 1;
                let _ = s.write_all(&(id | 0x8000_0000).to_le_bytes());
                let _ = s.set_read_timeout(Some(BOUND));
                let mut b = [0u8; 1];
                if s.read_exact(&mut b).is_ok() {
                    // greeted: the handler now blocks its worker thread
                    r.busy_until = Some(Instant::now() + Duration::from_millis(ms));
                    r.label("worker-thread-busy");
                }
                let mut cl = Client::new(id, l, Sock::Tcp(s), false);
                cl.state = CState::Released;
                r.clients.push(cl);
            }
            Op::BackoffBusy { l } => {
                if cfg!(verif_nohooks) {
                    continue;
                }
                r.refresh();
                if r.paused || r.clients.len() >= 11 || r.held() >= r.workers * r.limit || r.waiting() > 0 {
                    continue;
                }
                let l = vcore::pick(l, nl);
                hv::clear_injected(r.fds[l]);
                hv::inject_accept_error(r.fds[l], Some(libc::EMFILE), std::io::ErrorKind::Other);
                let sock = match &r.addrs[l] {
                    LAddr::Uds(p) => std::os::unix::net::UnixStream::connect(p).map(Sock::Uds),
                    t => std::net::TcpStream::connect_timeout(&t.tcp().unwrap(), BOUND).map(|s| {
                        let _ = socket2::SockRef::from(&s).set_linger(Some(Duration::ZERO));
                        Sock::Tcp(s)
                    }),
                };
                let Ok(mut sock) = sock else { continue };
                let id = next_id;
                next_id += 1;
                let _ = sock.write_all(&id.to_le_bytes());
                r.clients.push(Client::new(id, l, sock, false));
                r.label("inject");
                r.label("backoff-under-load");
                // keep the accept thread's poll busy: every resume() command is a waker event
                let t0 = Instant::now();
                let bound = Duration::from_millis(2600);
                let mut served = false;
                while t0.elapsed() < bound {
                    block_on(r.handle.resume());
                    thread::sleep(Duration::from_millis(40));
                    r.refresh();
                    if r.clients.last().map(|c| c.state != CState::Waiting).unwrap_or(true) {
                        served = true;
                        break;
                    }
                }
                if !served {
                    let msg = format!("a client that met an injected EMFILE on listener {} was not served {:?} after the error although the back-off is about 500 ms (the accept thread kept receiving other events meanwhile)", l, t0.elapsed());
                    r.flag(Prop::C05, "C05/backoff-starved", msg, true);
                }
            }
            Op::Stop { graceful, twice, drop_future } => {
                r.refresh();
                stop_checked = true;
                let held_at_stop: Vec<usize> = r.clients.iter().enumerate().filter(|(_, c)| c.state == CState::Held).map(|(i, _)| i).collect();
                r.label(if graceful { "graceful-stop" } else { "forced-stop" });
                if !held_at_stop.is_empty() {
                    r.label("stop-with-held-connections");
                }
                if r.paused {
                    r.label("stop-while-paused");
                }
                let gated_at_stop = r.w.gate_closed.load(Ordering::SeqCst);
                if gated_at_stop && r.waiting() > 0 {
                    // let the accept thread hand over what it can before the stop
                    thread::sleep(Duration::from_millis(60));
                    r.label("stop-with-connections-queued-at-workers");
                }
                let t0 = Instant::now();
                let fut1 = r.handle.stop(graceful);
                let fut2 = if twice { Some(r.handle2.stop(graceful)) } else { None };
                let timeout = Duration::from_secs(c.shutdown_timeout_s.clamp(1, 30));
                // release the held connections a little later (graceful must wait for exactly that)
                // with a handler that occupies a worker thread the held connections are released
                // only after that has ended: the graceful stop has to wait beyond it
                let busy_left = r.busy_until.map(|b| b.saturating_duration_since(Instant::now())).unwrap_or(Duration::ZERO);
                let release_after = if busy_left > Duration::ZERO { busy_left + Duration::from_millis(900) } else { Duration::from_millis(400) };
                if busy_left > Duration::ZERO && graceful && !held_at_stop.is_empty() {
                    r.label("graceful-stop-over-a-busy-period");
                }
                let block_after = c.block_after_stop && graceful && !held_at_stop.is_empty() && busy_left == Duration::ZERO && timeout >= Duration::from_secs(10);
                let release_after = if block_after { Duration::from_millis(150 + 2600 + 1200) } else { release_after };
                let mut blocked = false;
                let mut released_at: Option<Instant> = None;
                let will_release = graceful && !held_at_stop.is_empty() && timeout > Duration::from_secs(1) && release_after + Duration::from_millis(300) < timeout;
                let (dtx, drx) = mpsc::channel();
                if drop_future {
                    drop(fut1);
                    r.label("stop-future-dropped");
                } else {
                    let dtx = dtx.clone();
                    thread::spawn(move || {
                        block_on(fut1);
                        let _ = dtx.send(Instant::now());
                    });
                }
                let (d2tx, d2rx) = mpsc::channel();
                if let Some(f2) = fut2 {
                    r.label("stop-twice");
                    thread::spawn(move || {
                        block_on(f2);
                        let _ = d2tx.send(Instant::now());
                    });
                }
                let hard = timeout + Duration::from_secs(8);
                let mut completed: Option<Instant> = None;
                while t0.elapsed() < hard {
                    if block_after && !blocked && t0.elapsed() >= Duration::from_millis(150) {
                        blocked = true;
                        r.w.block_ms.store(2600, Ordering::SeqCst);
                        let _ = r.clients[held_at_stop[0]].sock.write_all(b"B");
                        r.busy_until = Some(Instant::now() + Duration::from_millis(2600));
                        r.label("worker-thread-blocked-during-graceful-stop");
                    }
                    if will_release && released_at.is_none() && t0.elapsed() >= release_after {
                        for i in &held_at_stop {
                            let _ = r.clients[*i].sock.write_all(b"x");
                            r.clients[*i].state = CState::Released;
                        }
                        released_at = Some(Instant::now());
                    }
                    if !drop_future {
                        if let Ok(t) = drx.try_recv() {
                            completed = Some(t);
                            break;
                        }
                    } else if r.server_done.load(Ordering::SeqCst) {
                        completed = Some(Instant::now());
                        break;
                    }
                    thread::sleep(Duration::from_millis(2));
                }
                r.stopped = true;
                if std::env::var("VERIF_VERBOSE").is_ok() || completed.map(|t| t.duration_since(t0) < Duration::from_millis(100)).unwrap_or(false) && graceful && !held_at_stop.is_empty() {
                    eprintln!("[l4] stop graceful={graceful} twice={twice} drop={drop_future}: completed after {:?}; released_at {:?}; gauge {:?}; client states {:?}; calls {}; server_done {}",
                        completed.map(|t| t.duration_since(t0)), released_at.map(|t| t.duration_since(t0)), r.w.gauge.lock().unwrap(), r.clients.iter().map(|c| (c.id, c.state)).collect::<Vec<_>>(), r.w.calls.lock().unwrap().len(), r.server_done.load(Ordering::SeqCst));
                }
                match completed {
                    None => r.flag(Prop::C06, "C06/stop-never-completes", format!("stop({}) did not complete within {:?} (shutdown_timeout {:?}, {} held connections, twice={}, future dropped={})", graceful, hard, timeout, held_at_stop.len(), twice, drop_future), true),
                    Some(tc) => {
                        let took = tc.duration_since(t0);
                        if graceful && !held_at_stop.is_empty() {
                            // safety: not before the connections finished or the timeout elapsed
                            let lower = match released_at {
                                Some(tr) => tr.duration_since(t0).min(timeout),
                                None => timeout,
                            };
                            if took + Duration::from_millis(20) < lower {
                                r.flag(Prop::C06, "C06/graceful-too-early", format!("graceful stop completed after {:?} although {} connection(s) in progress were released only after {:?} and shutdown_timeout is {:?}", took, held_at_stop.len(), released_at.map(|t| t.duration_since(t0)), timeout), false);
                            }
                        }
                        // a forced stop does not wait for a handler that occupies its worker thread
                        if let (false, Some(bu)) = (graceful, r.busy_until) {
                            let left = bu.saturating_duration_since(t0);
                            if left > Duration::from_millis(1500) && took > Duration::from_millis(1200) {
                                r.flag(Prop::C06, "C06/forced-waited", format!("forced stop took {:?} while a handler kept a worker thread busy for another {:?}: it waited for a connection in progress", took, left), true);
                            }
                        }
                        if !graceful && took > BOUND {
                            r.flag(Prop::C06, "C06/forced-waited", format!("forced stop took {:?} with {} held connections", took, held_at_stop.len()), true);
                        }
                    }
                }
                if twice {
                    // (when the first stop never completed there is no point in waiting as long again)
                    match d2rx.recv_timeout(if completed.is_none() { Duration::from_secs(1) } else { hard }) {
                        Err(_) => r.flag(Prop::C06, "C06/second-stop-unresolved", "the future of a second stop() never resolved".into(), true),
                        Ok(t2) => {
                            // the second stop(true) is a graceful stop too: it does not complete while
                            // connections are in progress and the timeout has not elapsed
                            if graceful && !held_at_stop.is_empty() {
                                let lower = match released_at {
                                    Some(tr) => tr.duration_since(t0).min(timeout),
                                    None => timeout,
                                };
                                let took2 = t2.duration_since(t0);
                                if took2 + Duration::from_millis(20) < lower {
                                    r.flag(Prop::C06, "C06/graceful-too-early", format!("the future of a second stop(true) completed after {:?} although {} connection(s) in progress were released only after {:?} and shutdown_timeout is {:?}", took2, held_at_stop.len(), released_at.map(|t| t.duration_since(t0)), timeout), false);
                                }
                            }
                        }
                    }
                }
                // the Server future resolves
                let t1 = Instant::now();
                while !r.server_done.load(Ordering::SeqCst) && t1.elapsed() < BOUND {
                    thread::sleep(Duration::from_millis(2));
                }
                if !r.server_done.load(Ordering::SeqCst) {
                    r.flag(Prop::C06, "C06/server-future-unresolved", "the Server future did not resolve after stop completed".into(), true);
                }
                // once the stop has completed and the Server future has resolved, every worker is
                // gone: connections that were still open (held, or queued at a worker) are closed
                if r.server_done.load(Ordering::SeqCst) {
                    // (a worker thread occupied by a blocking handler gets to its stop command when
                    // that handler returns)
                    let t2 = r.busy_until.map(|b| b.max(Instant::now())).unwrap_or_else(Instant::now);
                    loop {
                        r.refresh();
                        let open: Vec<u32> = r.clients.iter().filter(|c| matches!(c.state, CState::Held | CState::Waiting)).map(|c| c.id).collect();
                        if open.is_empty() {
                            break;
                        }
                        if Instant::now().saturating_duration_since(t2) > Duration::from_secs(2) {
                            let msg = format!("connections {:?} are still open (not released) 2 s after the stop had completed and the Server future had resolved: a worker is still running ({} worker panics before the stop)", open, r.panics);
                            r.flag(Prop::C01, "C01/leaked-at-stop", msg.clone(), true);
                            r.flag(Prop::C06, "C06/worker-survives-stop", msg.clone(), true);
                            r.flag(Prop::C08, "C08/replacement-not-stopped", msg, true);
                            break;
                        }
                        thread::sleep(Duration::from_millis(5));
                    }
                }
                // nothing is served after completion
                let calls_before = r.w.calls.lock().unwrap().len();
                let mut late = vec![];
                for l in 0..nl {
                    if let Some(a) = &r.addrs[l].tcp() {
                        if let Ok(mut s) = std::net::TcpStream::connect_timeout(a, Duration::from_millis(300)) {
                            let _ = socket2::SockRef::from(&s).set_linger(Some(Duration::ZERO));
                            let _ = s.write_all(&9999u32.to_le_bytes());
                            late.push(s);
                        }
                    }
                }
                if gated_at_stop {
                    // the services become ready again after the stop: nothing that was queued at
                    // a worker may be served now
                    r.w.open_gate();
                    thread::sleep(Duration::from_millis(250));
                }
                thread::sleep(Duration::from_millis(150));
                if r.w.calls.lock().unwrap().len() > calls_before {
                    let msg = if gated_at_stop { "a connection (queued at a worker while its services were not ready, or made after the stop) was handed to a service after stop had completed and the Server future had resolved" } else { "a connection made after stop had completed was handed to a service" };
                    r.flag(Prop::C06, "C06/served-after-stop", msg.into(), false);
                    r.flag(Prop::C01, "C01/served-after-stop", msg.into(), false);
                    r.flag(Prop::C08, "C08/replacement-not-stopped", msg.into(), false);
                }
            }
        }
    }
    if !r.stopped && r.w.gate_closed.load(Ordering::SeqCst) {
        r.refresh();
        if r.waiting() > 0 {
            r.label("queued-while-not-ready-then-ready");
        }
        r.w.open_gate();
    }
    if !r.stopped && !r.found.iter().any(|f| f.0 == prop) {
        r.settle(false);
    }
    // C01 accounting: once everything held has been released, every connection made (including
    // those the client reset) has entered Service::call exactly once
    if !r.stopped && !r.paused && r.panics == 0 && r.busy_until.is_none() && r.aborted > 0 && !r.found.iter().any(|f| f.0 == prop) {
        let t0 = Instant::now();
        loop {
            r.refresh();
            for c in r.clients.iter_mut().filter(|c| c.state == CState::Held) {
                let _ = c.sock.write_all(b"x");
                c.state = CState::Released;
            }
            let made = r.clients.len() + r.aborted;
            let calls = r.w.call_count.load(Ordering::SeqCst);
            if calls >= made && r.waiting() == 0 {
                if calls > made {
                    r.flag(Prop::C01, "C01/called-twice", format!("{} connections were made but Service::call was entered {} times", made, calls), false);
                }
                break;
            }
            let in_backoff = r.backoff_until.iter().any(|b| b.map(|t| Instant::now() < t).unwrap_or(false));
            if t0.elapsed() > BOUND + if in_backoff { Duration::from_millis(600) } else { Duration::ZERO } {
                r.flag(Prop::C01, "C01/discarded", format!("{} connections were made ({} of them reset by the client right after connecting) and every slot is free, but Service::call was entered only {} times", made, r.aborted, calls), true);
                break;
            }
            thread::sleep(Duration::from_millis(2));
        }
        r.label("accounting-with-client-resets");
    }
    // C01: exactly once, on the right listener's service
    {
        let calls = r.w.calls.lock().unwrap().clone();
        let mut seen: HashMap<u32, usize> = HashMap::new();
        for c2 in &calls {
            *seen.entry(c2.conn).or_default() += 1;
            if let Some(cl) = r.clients.iter().find(|x| x.id == c2.conn) {
                if cl.listener != c2.listener {
                    r.found.push((Prop::C01, "C01/wrong-service", format!("connection {} connected to listener {} but was served by the service of listener {}", c2.conn, cl.listener, c2.listener), false));
                }
            }
        }
        if let Some((id, n)) = seen.iter().find(|(_, n)| **n > 1) {
            r.found.push((Prop::C01, "C01/called-twice", format!("connection {} was served {} times", id, n), false));
        }
        // C04 end-to-end: when every connection was settled before the next one was made (hand-over:
        // call order == dispatch order) and no worker was ever saturated, any W consecutive
        // connections are served by W distinct worker threads
        let handed_over = c.ops.windows(2).all(|w| !matches!(w[0], Op::Connect { .. }) || matches!(w[1], Op::Settle)) && !matches!(c.ops.last(), Some(Op::Connect { .. }));
        let unsaturated = limit >= 12 && !r.labels.contains(&"pause") && r.panics == 0;
        if handed_over && unsaturated && workers >= 2 && calls.len() >= workers {
            for win in calls.windows(workers) {
                let distinct: std::collections::HashSet<ThreadId> = win.iter().map(|c| c.worker_thread).collect();
                if distinct.len() != workers {
                    r.found.push((Prop::C04, "C04/not-round-robin-e2e", format!("no worker was saturated, yet {} consecutive connections (ids {:?}) were served by only {} distinct workers", workers, win.iter().map(|c| c.conn).collect::<Vec<_>>(), distinct.len()), false));
                    break;
                }
            }
            r.label("round-robin-window-checked");
        }
        let threads: std::collections::HashSet<ThreadId> = calls.iter().map(|c| c.worker_thread).collect();
        if threads.len() >= 2 {
            r.label("served-by>=2-workers");
        }
    }
    // shut down
    if !r.stopped {
        let f = r.handle.stop(false);
        let (tx, rx) = mpsc::channel();
        thread::spawn(move || {
            block_on(f);
            let _ = tx.send(());
        });
        // (a forced stop of a healthy server completes within milliseconds)
        if rx.recv_timeout(if r.found.is_empty() { BOUND } else { Duration::from_secs(1) }).is_err() && r.found.is_empty() {
            r.flag(Prop::C06, "C06/stop-never-completes", format!("the stop(false) that ends the run did not complete within {:?}", BOUND), true);
        }
    }
    for cl in r.clients.drain(..) {
        drop(cl);
    }
    if let Some(t) = r.server_thread.take() {
        let t0 = Instant::now();
        let patience = if r.found.is_empty() { BOUND } else { Duration::from_secs(1) };
        while !r.server_done.load(Ordering::SeqCst) && t0.elapsed() < patience {
            thread::sleep(Duration::from_millis(2));
        }
        r.may_exit.0.store(true, Ordering::SeqCst);
        if r.server_done.load(Ordering::SeqCst) {
            let _ = t.join();
        }
    }
    for fd in r.fds.iter().filter(|fd| **fd >= 0) {
        hv::clear_injected(*fd);
        hv::take_consumed_injections(*fd);
    }
    for a in &r.addrs {
        if let LAddr::Uds(p) = a {
            let _ = std::fs::remove_file(p);
        }
    }
    let _ = initial_factories;
    let mine: Vec<&(Prop, &'static str, String, bool)> = r.found.iter().filter(|f| f.0 == prop).collect();
    if let Some(f) = mine.first() {
        return Err((Fail::new(f.1, format!("{} [{} workers, limit {}, listeners {:?}, shutdown_timeout {} s]", f.2, workers, limit, c.listeners, c.shutdown_timeout_s)), f.3));
    }
    let mut obs = Obs::new();
    for l in &r.labels {
        obs.label(l);
    }
    obs.nontrivial = match prop {
        Prop::C01 => r.labels.contains(&"served-by>=2-workers") || nl >= 2,
        Prop::C02 => r.labels.contains(&"saturated-with-waiting"),
        Prop::C03 => r.labels.contains(&"release-while-saturated") || r.labels.contains(&"churn-with-command-chatter"),
        Prop::C04 => r.labels.contains(&"round-robin-window-checked") || r.labels.contains(&"churn-with-command-chatter"),
        Prop::C05 => r.labels.contains(&"pause") || r.labels.contains(&"inject"),
        Prop::C06 => stop_checked && r.labels.contains(&"stop-with-held-connections"),
        Prop::C07 => r.labels.contains(&">=3-queued-connections-order-checked"),
        Prop::C08 => r.panics > 0,
    };
    Ok(obs)
}

pub mod gen {
    use proptest::prelude::*;

    use super::*;

    /// C04: unsaturated workers, every connection settled before the next (hand-over)
    pub fn c04_strategy() -> impl Strategy<Value = Case> {
        (2usize..4, prop::collection::vec(prop::sample::select(vec![LKind::Tcp, LKind::Tcp, LKind::Uds]), 1..3), prop::collection::vec((any::<u16>(), prop::option::weighted(0.3, any::<u16>())), 3..11), 0u8..3)
            .prop_map(|(workers, listeners, steps, bind_mode)| {
                let mut ops = vec![];
                for (l, rel) in steps {
                    ops.push(Op::Connect { l });
                    ops.push(Op::Settle);
                    if let Some(k) = rel {
                        ops.push(Op::Release { k });
                    }
                }
                Case { workers, limit: 12, listeners, shutdown_timeout_s: 1, ops, bind_mode, slow_drop: false, setters: (bind_mode as usize + workers) as u8, block_after_stop: false, fail_first_restart: false }
            })
    }

    /// C03 / C04: runs of short connections on one or two workers with a small limit while a second
    /// thread sends commands (worker releases race with commands in the waker queue)
    pub fn churn_strategy() -> impl Strategy<Value = Case> {
        (1usize..3, 1usize..3, 0u8..3, any::<bool>(), any::<u16>(), any::<u16>()).prop_map(|(workers, limit, bind_mode, hold_one, n, n2)| {
            let mut ops: Vec<Op> = vec![];
            if hold_one && workers * limit > 1 {
                ops.push(Op::Connect { l: 0 });
                ops.push(Op::Settle);
            }
            ops.push(Op::Churn { n });
            ops.push(Op::Connect { l: 0 });
            ops.push(Op::Settle);
            ops.push(Op::Churn { n: n2 });
            Case { workers, limit, listeners: vec![LKind::Tcp], shutdown_timeout_s: 1, ops, bind_mode, slow_drop: false, setters: (workers + limit) as u8, block_after_stop: false, fail_first_restart: false }
        })
    }

    /// C07 end to end: one worker, connections made one after the other while the services are not
    /// ready, then readiness returns
    pub fn order_strategy() -> impl Strategy<Value = Case> {
        (prop::collection::vec(prop::sample::select(vec![LKind::Tcp, LKind::Tcp, LKind::Uds]), 1..3), prop::collection::vec(any::<u16>(), 3..9), 0u8..2, prop::collection::vec(any::<u16>(), 0..3)).prop_map(|(listeners, conns, bind_mode, pre)| {
            let mut ops: Vec<Op> = vec![];
            for l in pre {
                ops.extend([Op::Connect { l }, Op::Settle, Op::Release { k: 0 }, Op::Settle]);
            }
            ops.push(Op::GateClose);
            for l in conns {
                ops.push(Op::Connect { l });
            }
            ops.extend([Op::Sleep { ms: 80 }, Op::GateOpen, Op::Settle]);
            Case { workers: 1, limit: 12, listeners, shutdown_timeout_s: 1, ops, bind_mode, slow_drop: false, setters: bind_mode, block_after_stop: false, fail_first_restart: false }
        })
    }

    /// C02: every slot taken, clients waiting, then a long quiet period
    pub fn long_idle_strategy() -> impl Strategy<Value = Case> {
        (1usize..3, 1usize..3, 0u8..3).prop_map(|(workers, limit, bind_mode)| {
            let mut ops: Vec<Op> = vec![];
            for _ in 0..workers * limit + 2 {
                ops.push(Op::Connect { l: 0 });
            }
            ops.extend([Op::Settle, Op::LongIdle, Op::Settle, Op::Release { k: 0 }, Op::Settle]);
            Case { workers, limit, listeners: vec![LKind::Tcp], shutdown_timeout_s: 1, ops, bind_mode, slow_drop: false, setters: (workers * 2 + limit) as u8, block_after_stop: false, fail_first_restart: false }
        })
    }

    /// C08: the factory refuses the replacement of the first faulted worker; the faults that follow
    /// (of any other worker, in particular the one with the highest index) must still be handled
    pub fn restart_refused_strategy() -> impl Strategy<Value = Case> {
        (1usize..3, 0u8..3, prop::collection::vec((0usize..4, any::<bool>()), 2..5)).prop_map(|(limit, bind_mode, rounds)| {
            let mut ops: Vec<Op> = vec![Op::Connect { l: 0 }, Op::Settle, Op::Release { k: 0 }, Op::Settle, Op::PanicNext, Op::Settle];
            for (n, again) in rounds {
                for _ in 0..n {
                    ops.push(Op::Connect { l: 0 });
                    ops.push(Op::Settle);
                    ops.push(Op::Release { k: 0 });
                    ops.push(Op::Settle);
                }
                ops.push(Op::PanicNext);
                ops.push(Op::Settle);
                if again {
                    ops.push(Op::Connect { l: 0 });
                    ops.push(Op::Settle);
                }
            }
            Case { workers: 3, limit, listeners: vec![LKind::Tcp], shutdown_timeout_s: 1, ops, bind_mode, slow_drop: false, setters: limit as u8, block_after_stop: false, fail_first_restart: true }
        })
    }

    /// C08: many workers, all of them dead before the accept thread notices the first fault
    pub fn panic_all_strategy() -> impl Strategy<Value = Case> {
        (prop_oneof![1 => 2usize..6, 3 => 18usize..27], 1usize..4, 0u8..3, prop::collection::vec(sel(), 0..4), any::<bool>(), prop::option::weighted(0.5, any::<bool>())).prop_map(|(workers, limit, bind_mode, pre, twice, stop)| {
            let mut ops: Vec<Op> = vec![];
            for l in &pre {
                ops.push(Op::Connect { l: *l });
            }
            ops.push(Op::Settle);
            for _ in &pre {
                ops.push(Op::Release { k: 0 });
            }
            ops.push(Op::Settle);
            ops.push(Op::PanicAll);
            if twice {
                ops.push(Op::PanicAll);
            }
            ops.push(Op::Connect { l: 0 });
            ops.push(Op::Settle);
            if let Some(graceful) = stop {
                ops.push(Op::Stop { graceful, twice: false, drop_future: false });
            }
            Case { workers, limit, listeners: vec![LKind::Tcp], shutdown_timeout_s: 1, ops, bind_mode, slow_drop: false, setters: (workers + limit) as u8, block_after_stop: false, fail_first_restart: false }
        })
    }

    fn sel() -> impl Strategy<Value = u16> {
        any::<u16>()
    }

    fn errkind() -> impl Strategy<Value = ErrKind> {
        prop::sample::select(vec![ErrKind::Aborted, ErrKind::Reset, ErrKind::Refused, ErrKind::Emfile, ErrKind::Other])
    }

    #[derive(Clone, Copy)]
    pub struct P {
        pub pause: u32,
        pub inject: u32,
        pub panic: u32,
        pub stop: u32,
        pub busy: u32,
        pub uds: bool,
        pub max_limit: usize,
        /// weight of "a handler future panics" (finishes its connection by unwinding)
        pub taskpanic: u32,
        /// weight of "a client resets its connection right after connecting"
        pub abort: u32,
        /// weight of "the services stop reporting readiness for a while"
        pub gate: u32,
        /// weight of "hundreds of short connections while a thread sends commands"
        pub churn: u32,
    }

    pub fn strategy(p: P) -> impl Strategy<Value = Case> {
        let mut alts: Vec<(u32, BoxedStrategy<Vec<Op>>)> = vec![
            (5, sel().prop_map(|l| vec![Op::Connect { l }]).boxed()),
            (2, sel().prop_map(|k| vec![Op::Release { k }]).boxed()),
            (2, Just(vec![Op::Settle]).boxed()),
            (1, (0u16..40).prop_map(|ms| vec![Op::Sleep { ms }]).boxed()),
            // saturate, release one, the next waiting client must get in
            (3, (prop::collection::vec(sel(), 3..7), sel()).prop_map(|(ls, k)| {
                let mut v: Vec<Op> = ls.into_iter().map(|l| Op::Connect { l }).collect();
                v.extend([Op::Settle, Op::Release { k }, Op::Settle]);
                v
            }).boxed()),
        ];
        if p.abort > 0 {
            alts.push((p.abort, sel().prop_map(|l| vec![Op::ConnectAbort { l }]).boxed()));
            // saturate, then resets that sit in the backlog, then free a slot
            alts.push((p.abort, (prop::collection::vec(sel(), 3..6), sel(), sel()).prop_map(|(ls, l, k)| {
                let mut v: Vec<Op> = ls.into_iter().map(|l| Op::Connect { l }).collect();
                v.extend([Op::Settle, Op::ConnectAbort { l }, Op::Connect { l }, Op::Release { k }, Op::Settle]);
                v
            }).boxed()));
        }
        if p.taskpanic > 0 {
            alts.push((p.taskpanic, sel().prop_map(|k| vec![Op::ReleasePanic { k }]).boxed()));
            alts.push((p.taskpanic, (prop::collection::vec(sel(), 3..7), sel()).prop_map(|(ls, k)| {
                let mut v: Vec<Op> = ls.into_iter().map(|l| Op::Connect { l }).collect();
                v.extend([Op::Settle, Op::ReleasePanic { k }, Op::Settle]);
                v
            }).boxed()));
        }
        if p.pause > 0 {
            alts.push((p.pause, (sel(), sel()).prop_map(|(l, l2)| vec![Op::Pause, Op::Connect { l }, Op::Connect { l: l2 }, Op::Sleep { ms: 150 }, Op::Resume, Op::Settle]).boxed()));
            alts.push((p.pause, Just(vec![Op::Pause]).boxed()));
            alts.push((p.pause, Just(vec![Op::Resume]).boxed()));
        }
        if p.inject > 0 {
            alts.push((p.inject, sel().prop_map(|l| vec![Op::BackoffBusy { l }, Op::Settle]).boxed()));
            alts.push((p.inject, (sel(), errkind()).prop_map(|(l, kind)| vec![Op::Inject { l, kind }, Op::Connect { l }, Op::Settle]).boxed()));
            alts.push((p.inject, (sel(), errkind()).prop_map(|(l, kind)| vec![Op::Inject { l, kind }, Op::Connect { l }, Op::Sleep { ms: 50 }, Op::Pause, Op::Resume, Op::Settle]).boxed()));
        }
        if p.panic > 0 {
            alts.push((p.panic, Just(vec![Op::PanicNext, Op::Settle]).boxed()));
            alts.push((p.panic, (sel(), sel()).prop_map(|(l, l2)| vec![Op::PanicNext, Op::Connect { l }, Op::Connect { l: l2 }, Op::Settle]).boxed()));
        }
        if p.churn > 0 {
            alts.push((p.churn, any::<u16>().prop_map(|n| vec![Op::Churn { n }]).boxed()));
            alts.push((p.churn, (sel(), any::<u16>()).prop_map(|(l, n)| vec![Op::Connect { l }, Op::Settle, Op::Churn { n }]).boxed()));
        }
        if p.gate > 0 {
            alts.push((p.gate, (prop::collection::vec(sel(), 1..5)).prop_map(|ls| {
                let mut v = vec![Op::GateClose];
                v.extend(ls.into_iter().map(|l| Op::Connect { l }));
                v.extend([Op::Sleep { ms: 80 }, Op::GateOpen, Op::Settle]);
                v
            }).boxed()));
            if p.panic > 0 {
                alts.push((p.gate, (prop::collection::vec(sel(), 1..5)).prop_map(|ls| {
                    let mut v = vec![Op::PanicNext, Op::Settle, Op::GateClose];
                    v.extend(ls.into_iter().map(|l| Op::Connect { l }));
                    v.push(Op::Sleep { ms: 80 });
                    v
                }).boxed()));
            }
        }
        if p.busy > 0 {
            alts.push((p.busy, (sel(), any::<u16>()).prop_map(|(l, ms)| vec![Op::HoldBusy { l, ms }]).boxed()));
            // connections held on the workers, then a handler that occupies a worker thread
            alts.push((p.busy, (sel(), sel(), any::<u16>()).prop_map(|(l, l2, ms)| vec![Op::Connect { l }, Op::Connect { l: l2 }, Op::Settle, Op::HoldBusy { l, ms }]).boxed()));
        }
        let body = prop::collection::vec(proptest::strategy::Union::new_weighted(alts), 1..6);
        let stop = if p.stop > 0 {
            prop::option::weighted(0.9, (any::<bool>(), prop::bool::weighted(0.3), prop::bool::weighted(0.2)).prop_map(|(graceful, twice, drop_future)| Op::Stop { graceful, twice, drop_future })).boxed()
        } else {
            Just(None).boxed()
        };
        let kinds = if p.uds { vec![LKind::Tcp, LKind::Tcp, LKind::Uds] } else { vec![LKind::Tcp] };
        (1usize..4, 1usize..=p.max_limit, prop::collection::vec(prop::sample::select(kinds), 1..3), prop::sample::select(if p.busy > 0 { vec![1u64, 2, 30, 30] } else { vec![1u64, 2] }), body, stop, prop::bool::weighted(0.2), 0u8..3, prop::bool::weighted(if p.panic > 0 { 0.5 } else { 0.0 }), prop::bool::weighted(if p.busy > 0 { 0.35 } else { 0.0 }))
            .prop_map(|(workers, limit, listeners, shutdown_timeout_s, body, stop, pause_before_stop, bind_mode, slow_drop, block_after_stop)| {
                let block_after_stop = block_after_stop && matches!(stop, Some(Op::Stop { graceful: true, .. }));
                let shutdown_timeout_s = if block_after_stop { 30 } else { shutdown_timeout_s };
                let mut ops: Vec<Op> = body.into_iter().flatten().collect();
                if let Some(s) = stop {
                    ops.push(Op::Settle);
                    if pause_before_stop {
                        ops.push(Op::Pause);
                    }
                    ops.push(s);
                }
                Case { workers, limit, listeners, shutdown_timeout_s, ops, bind_mode, slow_drop, setters: (bind_mode as usize + workers * 3 + limit) as u8, block_after_stop, fail_first_restart: false }
            })
    }
}
