//! Entry points of C01..C10 for a build WITHOUT the hooks (`--cfg verif_nohooks`): only the parts
//! that use public API (end-to-end server scripts, signals, the actix-rt checks). A run in this
//! mode can report a violation (exit 1) but never "held": the stepped parts were not run, which is
//! recorded as inconclusive (exit 2).

use serde_json::Value;
use vcore::{Ctx, Part};

use crate::l4;

const WHY: &str = "the instrumented build of actix-server (--cfg actix_net_verif) does not compile against this tree, so the stepped parts (real accept loop / real worker driven step by step) could not run; only the end-to-end parts were run";

const RULE_L4: &str = "L4 (no-hooks mode): op scripts against a real Server through public API only (no accept-error injection); see the regular evidence for the full description";

fn l4_part(ctx: &Ctx, name: &str, prop: l4::Prop, p: l4::gen::P, cases: u64) {
    ctx.run_corpus::<l4::Case>("l4", |c| l4::run_case(c, prop));
    ctx.run_random(Part::new(name, RULE_L4, cases).shards(8).shrink_iters(8), move || l4::gen::strategy(p), move |c| l4::run_case(c, prop));
}

fn replay_l4(ctx: &Ctx, v: &Value, prop: l4::Prop) -> i32 {
    ctx.replay::<l4::Case>(v, |c| l4::run_case(c, prop))
}

const BASE: l4::gen::P = l4::gen::P { pause: 0, inject: 0, panic: 0, stop: 0, busy: 0, uds: true, max_limit: 3, taskpanic: 1, abort: 0, gate: 0, churn: 0 };

pub fn run_c01(ctx: &Ctx) {
    l4_part(ctx, "l4", l4::Prop::C01, l4::gen::P { pause: 1, uds: true, abort: 2, gate: 2, ..BASE }, ctx.tier.scale(300, 4));
    l4_part(ctx, "l4-faults", l4::Prop::C01, l4::gen::P { panic: 4, stop: 1, max_limit: 2, taskpanic: 0, gate: 3, uds: false, ..BASE }, ctx.tier.scale(160, 4));
    ctx.inconclusive(WHY);
}
pub fn replay_c01(ctx: &Ctx, v: &Value) -> i32 {
    replay_l4(ctx, v, l4::Prop::C01)
}

pub fn run_c02(ctx: &Ctx) {
    l4_part(ctx, "l4", l4::Prop::C02, l4::gen::P { gate: 1, ..BASE }, ctx.tier.scale(400, 4));
    ctx.run_random(Part::new("l4-long-idle", RULE_L4, ctx.tier.scale(4, 3)).shards(8).shrink_iters(1), l4::gen::long_idle_strategy, move |c| l4::run_case(c, l4::Prop::C02));
    ctx.inconclusive(WHY);
}
pub fn replay_c02(ctx: &Ctx, v: &Value) -> i32 {
    replay_l4(ctx, v, l4::Prop::C02)
}

pub fn run_c03(ctx: &Ctx) {
    l4_part(ctx, "l4", l4::Prop::C03, l4::gen::P { taskpanic: 2, ..BASE }, ctx.tier.scale(400, 4));
    ctx.run_random(Part::new("l4-churn", RULE_L4, ctx.tier.scale(16, 4)).shards(4).shrink_iters(4), l4::gen::churn_strategy, move |c| l4::run_case(c, l4::Prop::C03));
    ctx.inconclusive(WHY);
}
pub fn replay_c03(ctx: &Ctx, v: &Value) -> i32 {
    replay_l4(ctx, v, l4::Prop::C03)
}

pub fn run_c04(ctx: &Ctx) {
    ctx.run_corpus::<l4::Case>("l4", |c| l4::run_case(c, l4::Prop::C04));
    ctx.run_random(Part::new("l4-churn", RULE_L4, ctx.tier.scale(16, 4)).shards(4).shrink_iters(4), l4::gen::churn_strategy, move |c| l4::run_case(c, l4::Prop::C04));
    ctx.run_random(Part::new("l4", RULE_L4, ctx.tier.scale(300, 4)).shards(8).shrink_iters(8), l4::gen::c04_strategy, |c| l4::run_case(c, l4::Prop::C04));
    ctx.inconclusive(WHY);
}
pub fn replay_c04(ctx: &Ctx, v: &Value) -> i32 {
    replay_l4(ctx, v, l4::Prop::C04)
}

pub fn run_c05(ctx: &Ctx) {
    l4_part(ctx, "l4", l4::Prop::C05, l4::gen::P { pause: 3, uds: true, max_limit: 4, taskpanic: 0, ..BASE }, ctx.tier.scale(200, 4));
    ctx.inconclusive(WHY);
}
pub fn replay_c05(ctx: &Ctx, v: &Value) -> i32 {
    replay_l4(ctx, v, l4::Prop::C05)
}

pub fn run_c06(ctx: &Ctx) {
    l4_part(ctx, "l4", l4::Prop::C06, l4::gen::P { pause: 1, stop: 1, busy: 2, gate: 1, ..BASE }, ctx.tier.scale(96, 4));
    ctx.inconclusive(WHY);
}
pub fn replay_c06(ctx: &Ctx, v: &Value) -> i32 {
    replay_l4(ctx, v, l4::Prop::C06)
}

pub fn run_c07(ctx: &Ctx) {
    // C07 is decided on the stepped worker; end to end only the order of queued connections is visible
    ctx.run_random(Part::new("l4-order", RULE_L4, ctx.tier.scale(64, 4)).shards(8).shrink_iters(6), l4::gen::order_strategy, move |c| l4::run_case(c, l4::Prop::C07));
    ctx.inconclusive(WHY);
}
pub fn replay_c07(ctx: &Ctx, v: &Value) -> i32 {
    replay_l4(ctx, v, l4::Prop::C07)
}

pub fn run_c08(ctx: &Ctx) {
    l4_part(ctx, "l4", l4::Prop::C08, l4::gen::P { panic: 4, stop: 1, max_limit: 2, gate: 2, uds: false, ..BASE }, ctx.tier.scale(300, 4));
    ctx.run_random(Part::new("l4-all-workers-fault", RULE_L4, ctx.tier.scale(24, 5)).shards(8).shrink_iters(6), l4::gen::panic_all_strategy, move |c| l4::run_case(c, l4::Prop::C08));
    ctx.run_random(Part::new("l4-restart-refused", RULE_L4, ctx.tier.scale(24, 5)).shards(8).shrink_iters(6), l4::gen::restart_refused_strategy, move |c| l4::run_case(c, l4::Prop::C08));
    ctx.inconclusive(WHY);
}
pub fn replay_c08(ctx: &Ctx, v: &Value) -> i32 {
    replay_l4(ctx, v, l4::Prop::C08)
}

// actix-rt has no hooks: C09 and C10 run in full
pub fn run_c09(ctx: &Ctx) {
    use crate::rt;
    ctx.run_corpus::<rt::C09Case>("threads", rt::check_c09);
    ctx.run_random(Part::new("threads", "see the regular evidence", ctx.tier.scale(4_000, 8)).shrink_iters(24), rt::gen::c09, rt::check_c09);
}
pub fn replay_c09(ctx: &Ctx, v: &Value) -> i32 {
    ctx.replay::<crate::rt::C09Case>(v, crate::rt::check_c09)
}

pub fn run_c10(ctx: &Ctx) {
    use crate::rt;
    ctx.run_corpus::<rt::C10Case>("threads", rt::check_c10);
    ctx.run_random(Part::new("threads", "see the regular evidence", ctx.tier.scale(4_000, 8)).shrink_iters(40), rt::gen::c10, rt::check_c10);
}
pub fn replay_c10(ctx: &Ctx, v: &Value) -> i32 {
    ctx.replay::<crate::rt::C10Case>(v, crate::rt::check_c10)
}
