#!/usr/bin/env python3
"""tools/seedkeep.py <ID> <variant> <caught|missed> [note]  — archive a verified seeded change under /verif/seeded/"""
import json, sys, shutil, os, subprocess
pid, var, verdict = sys.argv[1:4]
note = sys.argv[4] if len(sys.argv) > 4 else ""
src = f"{os.environ.get('SEED_BASE','/tmp/seed_out')}/{pid}/{var}"
dst = f"/verif/seeded/{pid}-{var}"
os.makedirs(dst, exist_ok=True)
meta = json.load(open(f"{src}/meta.json"))
for f in os.listdir(src):
    if f.endswith('.log'): continue
    shutil.copy(f"{src}/{f}", f"{dst}/{f}")
head = subprocess.run(['git','-C','/repo','rev-parse','--short','HEAD'],capture_output=True,text=True).stdout.strip()
meta.update({
  "breaks_property": pid,
  "verified_by_me": {
     "how": "tools/seedverify.sh in scratch worktree /tmp/wt_verify (removed afterwards): workspace suite passes with the change, demo fails with it, demo passes without it",
     "repo_head": head,
  },
  "check_result": {"cmd": f"tools/seedrun.sh {pid} seeded/{pid}-{var}  (git apply; ./check {pid} quick; git checkout)", "verdict": verdict, "note": note},
})
json.dump(meta, open(f"{dst}/meta.json","w"), indent=1)
print("kept", dst)
