#![no_main]
use libfuzzer_sys::fuzz_target;
fuzz_target!(|data: &[u8]| {
    let case = vl1::c14::case_from_bytes(data);
    vcore::fuzz::fuzz_one("C14", &case, vl1::c14::check_case);
});
