//! Server / runtime / TLS checks: L2 stepped accept loop, L3 in-thread worker, L4 end-to-end.
pub mod l2;
pub mod l2props;
pub mod l3;
pub mod l4;
pub mod props;
pub mod rt;
pub mod sig;
