//! Coverage-guided fuzzing as a *part* of a check: build the cargo-fuzz target, run K libFuzzer
//! processes with fixed `-runs`, collect the statistics the in-target oracle wrote, and re-judge any
//! artifact through the plain `check_case` path (the verdict never depends on libFuzzer itself).
//!
//! Target side (`FuzzSide`): decode bytes → case, run the oracle, count, write a JSON replay and
//! abort on a violation.

use std::{
    collections::HashSet,
    path::{Path, PathBuf},
    process::{Command, Stdio},
    sync::Mutex,
    time::Instant,
};

use serde::Serialize;
use serde_json::{json, Value};

use crate::{hash_str, CaseResult, Ctx, Fail, KnownEntry, PartReport, VERIF_DIR};

pub struct Campaign<'a> {
    pub target: &'a str,
    /// part name written into replay files = the part whose Case type the target decodes into
    pub part: &'a str,
    pub runs_per_proc: u64,
    pub procs: usize,
    pub max_len: usize,
    pub rule: &'a str,
}

fn fuzz_root() -> PathBuf {
    Path::new(VERIF_DIR).join("fuzzproj")
}

fn target_bin(target: &str) -> PathBuf {
    fuzz_root().join("fuzz/target/x86_64-unknown-linux-gnu/release").join(target)
}

/// Build all fuzz targets (cargo-fuzz, nightly, ASan).  Returns false when the build failed.
pub fn build_targets() -> bool {
    let mut cmd = Command::new("cargo");
    cmd.current_dir(fuzz_root())
        .args(["+nightly", "fuzz", "build"])
        .env("CARGO_NET_OFFLINE", "true")
        .env_remove("RUSTFLAGS")
        .stdout(Stdio::null());
    if std::env::var("VERIF_VERBOSE").is_err() {
        cmd.stderr(Stdio::piped());
    }
    match cmd.output() {
        Ok(o) if o.status.success() => true,
        Ok(o) => {
            eprintln!("cargo fuzz build failed:\n{}", String::from_utf8_lossy(&o.stderr));
            false
        }
        Err(e) => {
            eprintln!("cannot run cargo fuzz: {e}");
            false
        }
    }
}

impl Ctx {
    /// Run a libFuzzer campaign. `seed_inputs` are written into each fresh corpus directory.
    /// `rejudge_bytes` decodes a raw artifact and judges it (used when the target died without
    /// writing its own JSON replay: sanitizer report, abort, …) and returns the case as JSON.
    pub fn run_fuzz(
        &self,
        c: Campaign<'_>,
        seed_inputs: &[Vec<u8>],
        rejudge_bytes: &(dyn Fn(&[u8]) -> Option<(Value, CaseResult)> + Sync),
        rejudge_json: &(dyn Fn(&Value) -> Option<CaseResult> + Sync),
    ) {
        if !self.part_enabled(&format!("{}/libfuzzer", c.part)) || self.variant.is_some() {
            return;
        }
        let t0 = Instant::now();
        if !build_targets() {
            self.inconclusive(format!("fuzz target build failed for {}", c.target));
            return;
        }
        let bin = target_bin(c.target);
        if !bin.exists() {
            self.inconclusive(format!("fuzz binary {} missing", bin.display()));
            return;
        }
        let work = std::env::temp_dir().join(format!("verif-fuzz-{}-{}-{}", self.property, c.target, std::process::id()));
        let _ = std::fs::remove_dir_all(&work);
        let merged = Mutex::new((0u64, 0u64, 0u64, HashSet::<u64>::new(), Vec::<Value>::new(), std::collections::BTreeMap::<String, u64>::new()));
        std::thread::scope(|sc| {
            for k in 0..c.procs {
                let (work, bin, merged, c) = (&work, &bin, &merged, &c);
                sc.spawn(move || {
                    let dir = work.join(format!("p{k}"));
                    let corpus = dir.join("corpus");
                    let out = dir.join("out");
                    let art = dir.join("artifacts");
                    for d in [&corpus, &out, &art] {
                        let _ = std::fs::create_dir_all(d);
                    }
                    for (i, s) in seed_inputs.iter().enumerate() {
                        let _ = std::fs::write(corpus.join(format!("seed{i}")), s);
                    }
                    let seed = (self.seed.wrapping_mul(1_000_003).wrapping_add(k as u64 + 1) % 0x7fff_ffff).max(1);
                    let status = Command::new(bin)
                        .arg(&corpus)
                        .arg(format!("-runs={}", c.runs_per_proc))
                        .arg(format!("-seed={seed}"))
                        .arg("-len_control=0")
                        .arg(format!("-max_len={}", c.max_len))
                        .arg(format!("-artifact_prefix={}/", art.display()))
                        .arg("-print_final_stats=0")
                        .arg("-verbosity=0")
                        .env("VERIF_FUZZ_OUT", &out)
                        .env("VERIF_FUZZ_PART", c.part)
                        .env("ASAN_OPTIONS", "detect_leaks=0:abort_on_error=0")
                        .stdout(Stdio::null())
                        .stderr(Stdio::null())
                        .status();
                    // statistics written by the target
                    if let Ok(text) = std::fs::read_to_string(out.join("stats.json")) {
                        if let Ok(v) = serde_json::from_str::<Value>(&text) {
                            let mut m = merged.lock().unwrap();
                            m.0 += v["evaluations"].as_u64().unwrap_or(0);
                            m.1 += v["nontrivial_total"].as_u64().unwrap_or(0);
                            m.2 += v["excluded_known"].as_u64().unwrap_or(0);
                            if let Some(a) = v["distinct_hashes"].as_array() {
                                m.3.extend(a.iter().filter_map(|x| x.as_u64()));
                            }
                            if let Some(a) = v["samples"].as_array() {
                                for s in a {
                                    if m.4.len() < 4 {
                                        m.4.push(s.clone());
                                    }
                                }
                            }
                            if let Some(o) = v["labels"].as_object() {
                                for (l, n) in o {
                                    *m.5.entry(l.clone()).or_default() += n.as_u64().unwrap_or(0);
                                }
                            }
                        }
                    }
                    // failures: JSON replays written by the target, else raw artifacts
                    let mut judged = false;
                    if let Ok(rd) = std::fs::read_dir(&out) {
                        for e in rd.flatten() {
                            let p = e.path();
                            if p.file_name().map(|n| n.to_string_lossy().starts_with("fail-")).unwrap_or(false) {
                                if let Ok(v) = std::fs::read_to_string(&p).map_err(|_| ()).and_then(|t| serde_json::from_str::<Value>(&t).map_err(|_| ())) {
                                    judged = true;
                                    match rejudge_json(&v["case"]) {
                                        Some(Err(f)) => self.violation_external(c.part, &v["case"], &f, &format!("libFuzzer {} proc {k}", c.target)),
                                        Some(Ok(_)) => self.inconclusive(format!("fuzz target {} reported a failure that the plain check does not reproduce: {}", c.target, p.display())),
                                        None => self.inconclusive(format!("fuzz failure file {} does not parse", p.display())),
                                    }
                                }
                            }
                        }
                    }
                    if let Ok(rd) = std::fs::read_dir(&art) {
                        for e in rd.flatten() {
                            if judged {
                                break;
                            }
                            if let Ok(bytes) = std::fs::read(e.path()) {
                                match rejudge_bytes(&bytes) {
                                    Some((case, Err(f))) => self.violation_external(c.part, &case, &f, &format!("libFuzzer artifact {} proc {k}", c.target)),
                                    Some((case, Ok(_))) => {
                                        // died in the target but passes here: a sanitizer finding or abort
                                        let f = Fail::new("fuzz-crash", format!("libFuzzer target {} crashed (sanitizer/abort) on an input that the plain check accepts", c.target));
                                        self.violation_external(c.part, &case, &f, "libFuzzer artifact (crash only)");
                                    }
                                    None => {}
                                }
                            }
                        }
                    }
                    match status {
                        Ok(s) if s.success() => {}
                        Ok(_) => {}
                        Err(e) => self.inconclusive(format!("cannot start fuzz binary: {e}")),
                    }
                });
            }
        });
        let _ = std::fs::remove_dir_all(&work);
        let m = merged.into_inner().unwrap();
        if m.0 == 0 {
            self.inconclusive(format!("fuzz campaign {} produced no statistics", c.target));
        }
        self.add_part(PartReport {
            name: format!("{}/libfuzzer", c.part),
            kind: "fuzz",
            evaluations: m.0,
            distinct_nontrivial: m.3.len() as u64,
            nontrivial_total: m.1,
            labels: m.5,
            samples: m.4,
            exhaustive: false,
            excluded_known: m.2,
            wall_s: t0.elapsed().as_secs_f64(),
            rule: c.rule.to_string(),
            extra: json!({"target": c.target, "procs": c.procs, "runs_per_proc": c.runs_per_proc, "max_len": c.max_len,
                          "note": "distinct_nontrivial counts a bounded sample of case hashes (first 200k per process)"}),
        });
    }
}

// ------------------------------------------------------------------------------------------------
// target side

pub struct FuzzSide {
    evaluations: u64,
    nontrivial_total: u64,
    excluded_known: u64,
    distinct: HashSet<u64>,
    samples: Vec<Value>,
    labels: std::collections::BTreeMap<&'static str, u64>,
    known: Vec<KnownEntry>,
    property: String,
}

static SIDE: Mutex<Option<FuzzSide>> = Mutex::new(None);

extern "C" fn dump_at_exit() {
    dump_stats();
}

extern "C" {
    fn atexit(cb: extern "C" fn()) -> i32;
}

fn dump_stats() {
    let Ok(out) = std::env::var("VERIF_FUZZ_OUT") else { return };
    if let Ok(g) = SIDE.lock() {
        if let Some(s) = g.as_ref() {
            let v = json!({
                "evaluations": s.evaluations, "nontrivial_total": s.nontrivial_total,
                "excluded_known": s.excluded_known,
                "distinct_hashes": s.distinct.iter().collect::<Vec<_>>(),
                "samples": s.samples, "labels": s.labels,
            });
            let _ = std::fs::write(Path::new(&out).join("stats.json"), v.to_string());
        }
    }
}

/// Called by every fuzz target for each input: judge `case` with `check`.
pub fn fuzz_one<C: Serialize>(property: &str, case: &C, check: impl FnOnce(&C) -> CaseResult) {
    // libfuzzer-sys installs a panic hook that aborts the process; several oracles *expect* panics
    // (panic parity with str, "rejects cleanly") and catch them, so the hook is replaced before the
    // first case runs. Violations are reported through our own JSON file + abort below.
    static HOOK: std::sync::Once = std::sync::Once::new();
    HOOK.call_once(|| std::panic::set_hook(Box::new(|_| {})));
    let r = std::panic::catch_unwind(std::panic::AssertUnwindSafe(|| check(case)));
    let r = match r {
        Ok(r) => r,
        Err(p) => Err(Fail::new("escaped-panic", format!("panic escaped the case: {}", crate::panic_message(&*p)))),
    };
    let mut g = SIDE.lock().unwrap();
    if g.is_none() {
        let known: Vec<KnownEntry> = std::fs::read_to_string(Path::new(VERIF_DIR).join("known_findings.json"))
            .ok()
            .and_then(|s| serde_json::from_str::<Value>(&s).ok())
            .and_then(|v| v.get("findings").cloned())
            .and_then(|v| serde_json::from_value(v).ok())
            .unwrap_or_default();
        *g = Some(FuzzSide {
            evaluations: 0, nontrivial_total: 0, excluded_known: 0, distinct: HashSet::new(), samples: vec![],
            labels: Default::default(), known, property: property.to_string(),
        });
        unsafe {
            atexit(dump_at_exit);
        }
    }
    let s = g.as_mut().unwrap();
    match r {
        Ok(obs) => {
            s.evaluations += 1;
            for l in &obs.labels {
                *s.labels.entry(l).or_default() += 1;
            }
            if obs.nontrivial {
                s.nontrivial_total += 1;
                if s.distinct.len() < 200_000 || s.samples.len() < 2 {
                    let v = serde_json::to_value(case).unwrap_or(Value::Null);
                    s.distinct.insert(hash_str(&v.to_string()));
                    if s.samples.len() < 2 {
                        s.samples.push(v);
                    }
                }
            }
        }
        Err(f) => {
            if s.known.iter().any(|k| k.status == "known" && k.property == s.property && k.signature == f.sig) {
                s.excluded_known += 1;
                return;
            }
            let out = std::env::var("VERIF_FUZZ_OUT").unwrap_or_else(|_| "/tmp".into());
            let part = std::env::var("VERIF_FUZZ_PART").unwrap_or_else(|_| "fuzz".into());
            let case_v = serde_json::to_value(case).unwrap_or(Value::Null);
            let v = json!({"property": property, "part": part, "case": case_v, "message": f.msg, "signature": f.sig, "origin": "libFuzzer"});
            let path = Path::new(&out).join(format!("fail-{:016x}.json", hash_str(&v["case"].to_string())));
            let _ = std::fs::write(&path, serde_json::to_string_pretty(&v).unwrap());
            drop(g);
            dump_stats();
            eprintln!("VERIF-FUZZ-FAIL {} {}", f.sig, f.msg);
            std::process::abort();
        }
    }
}
