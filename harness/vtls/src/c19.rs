//! C19 — Connector: resolution precedence, ordered fallback, hostname-verified TLS.

use std::{
    cell::RefCell,
    net::{IpAddr, Ipv4Addr, SocketAddr},
    pin::Pin,
    rc::Rc,
    sync::Arc,
    time::Duration,
};

use actix_service::{Service, ServiceFactory};
use actix_tls::connect::{self, tcp::TcpConnector, ConnectError, ConnectInfo, Connection, Connector, Resolve, Resolver};
use futures_core::future::LocalBoxFuture;
use proptest::prelude::*;
use serde::{Deserialize, Serialize};
use serde_json::Value;
use tokio::io::{AsyncReadExt, AsyncWriteExt};
use vcore::{CaseResult, Ctx, Fail, Obs, Part};

use crate::{
    certs,
    io::{pipe_pair, Pipe},
};

// ================================================================================================
// resolver + TCP connector over real loopback sockets
// ================================================================================================

#[derive(Clone, Copy, Debug, Serialize, Deserialize, PartialEq)]
pub enum Target {
    /// a listening socket that counts its accepts
    Live,
    /// bound but not listening: the port is reserved and refuses connections
    Closed,
    /// the same two on the IPv6 loopback address
    Live6,
    Closed6,
}

#[derive(Clone, Debug, Serialize, Deserialize, PartialEq)]
pub enum HostKind {
    Name,
    /// "name:<port of target i>"
    NameWithPort { i: u8 },
    /// "127.0.0.1" (port via set_port or none)
    Ip,
    /// "127.0.0.1:<port of target i>"
    IpWithPort { i: u8 },
    /// "localhost" / "LOCALHOST:<port>": an ordinary name for a connector with a custom resolver
    Localhost,
    LocalhostWithPort { i: u8 },
}

#[derive(Clone, Debug, Serialize, Deserialize, PartialEq)]
pub enum Preset {
    None,
    WithAddr { i: u8 },
    SetAddr { i: u8 },
    SetAddrs { idx: Vec<u8> },
}

#[derive(Clone, Debug, Serialize, Deserialize, PartialEq)]
pub enum Res {
    Ok { idx: Vec<u8> },
    Empty,
    Err,
}

#[derive(Clone, Copy, Debug, Serialize, Deserialize, PartialEq)]
pub enum Via {
    /// Connector service (resolver then TCP connector)
    Connector,
    /// ResolverService alone, then TcpConnectorService
    Split,
    /// TcpConnectorService alone (no resolution at all)
    TcpOnly,
    /// the service produced by `Connector` as a `ServiceFactory` (`new_service(())`)
    ConnectorFactory,
    /// `Resolver` and `TcpConnector` as service factories, chained by hand
    SplitFactory,
}

#[derive(Clone, Debug, Serialize, Deserialize, PartialEq)]
pub struct TcpCase {
    pub targets: Vec<Target>,
    pub host: HostKind,
    pub preset: Preset,
    /// set_port(port of target i)
    pub set_port: Option<u8>,
    pub resolver: Res,
    pub local_addr: bool,
    pub via: Via,
    /// the local bind address (if any) is ::1 instead of 127.0.0.1
    #[serde(default)]
    pub local_v6: bool,
}

struct LogResolver {
    log: Rc<RefCell<Vec<(String, u16)>>>,
    answer: Result<Vec<SocketAddr>, ()>,
}

impl Resolve for LogResolver {
    fn lookup<'a>(&'a self, host: &'a str, port: u16) -> LocalBoxFuture<'a, Result<Vec<SocketAddr>, Box<dyn std::error::Error>>> {
        self.log.borrow_mut().push((host.to_string(), port));
        let a = self.answer.clone();
        Box::pin(async move {
            tokio::task::yield_now().await;
            a.map_err(|_| Box::<dyn std::error::Error>::from("scripted resolver failure"))
        })
    }
}

enum Sock {
    Live(std::net::TcpListener),
    Closed(#[allow(dead_code)] socket2::Socket),
}

pub fn check_tcp(c: &TcpCase) -> CaseResult {
    thread_local! {
        static RT: tokio::runtime::Runtime = tokio::runtime::Builder::new_current_thread().enable_all().build().unwrap();
    }
    RT.with(|rt| {
        let ls = tokio::task::LocalSet::new();
        ls.block_on(rt, run_tcp(c))
    })
}

fn pick(i: u8, n: usize) -> usize {
    i as usize % n.max(1)
}

async fn run_tcp(c: &TcpCase) -> CaseResult {
    let mut socks = vec![];
    let mut addrs = vec![];
    for t in c.targets.iter().take(4) {
        match t {
            Target::Live | Target::Live6 => {
                let l = std::net::TcpListener::bind(if matches!(t, Target::Live) { "127.0.0.1:0" } else { "[::1]:0" }).map_err(|e| Fail::new("harness/setup", format!("{e}")))?;
                l.set_nonblocking(true).ok();
                addrs.push(l.local_addr().unwrap());
                socks.push(Sock::Live(l));
            }
            Target::Closed | Target::Closed6 => {
                let v4 = matches!(t, Target::Closed);
                let s = socket2::Socket::new(if v4 { socket2::Domain::IPV4 } else { socket2::Domain::IPV6 }, socket2::Type::STREAM, None).map_err(|e| Fail::new("harness/setup", format!("{e}")))?;
                let a = if v4 { SocketAddr::from((Ipv4Addr::LOCALHOST, 0)) } else { SocketAddr::from((std::net::Ipv6Addr::LOCALHOST, 0)) };
                s.bind(&a.into()).map_err(|e| Fail::new("harness/setup", format!("{e}")))?;
                addrs.push(s.local_addr().unwrap().as_socket().unwrap());
                socks.push(Sock::Closed(s));
            }
        }
    }
    let n = addrs.len();
    // ports named in host strings / set_port come from the IPv4 targets only: a port reserved on
    // ::1 is not reserved on 127.0.0.1 (another thread of the check may be listening there)
    let v4_ports: Vec<u16> = addrs.iter().filter(|a| a.is_ipv4()).map(|a| a.port()).collect();
    let port_of = |i: u8| if v4_ports.is_empty() { 9 } else { v4_ports[pick(i, v4_ports.len())] };
    // request
    let (host, host_port): (String, Option<u16>) = match &c.host {
        HostKind::Name => ("example.test".into(), None),
        HostKind::NameWithPort { i } => (format!("example.test:{}", port_of(*i)), Some(port_of(*i))),
        HostKind::Ip => ("127.0.0.1".into(), None),
        HostKind::IpWithPort { i } => (format!("127.0.0.1:{}", port_of(*i)), Some(port_of(*i))),
        HostKind::Localhost => ("localhost".into(), None),
        HostKind::LocalhostWithPort { i } => (format!("LOCALHOST:{}", port_of(*i)), Some(port_of(*i))),
    };
    let host_name = match &c.host {
        HostKind::Localhost => "localhost",
        HostKind::LocalhostWithPort { .. } => "LOCALHOST",
        _ => "example.test",
    };
    let is_ip = matches!(c.host, HostKind::Ip | HostKind::IpWithPort { .. });
    let list = |idx: &Vec<u8>| -> Vec<SocketAddr> { if n == 0 { vec![] } else { idx.iter().take(4).map(|i| addrs[pick(*i, n)]).collect() } };
    let mut req = match &c.preset {
        Preset::WithAddr { i } if n > 0 => ConnectInfo::with_addr(host.clone(), addrs[pick(*i, n)]),
        _ => ConnectInfo::new(host.clone()),
    };
    let mut preset_addrs: Option<Vec<SocketAddr>> = match &c.preset {
        Preset::WithAddr { i } if n > 0 => Some(vec![addrs[pick(*i, n)]]),
        _ => None,
    };
    match &c.preset {
        Preset::SetAddr { i } if n > 0 => {
            req = req.set_addr(addrs[pick(*i, n)]);
            preset_addrs = Some(vec![addrs[pick(*i, n)]]);
        }
        Preset::SetAddrs { idx } => {
            let l = list(idx);
            req = req.set_addrs(l.clone());
            preset_addrs = if l.is_empty() { None } else { Some(l) };
        }
        _ => {}
    }
    let set_port = c.set_port.map(port_of);
    if let Some(p) = set_port {
        req = req.set_port(p);
    }
    // 127.0.0.2: any address of 127/8 is local, and a socket that was *not* bound would use 127.0.0.1
    let local_ip = if c.local_v6 { IpAddr::V6(std::net::Ipv6Addr::LOCALHOST) } else { IpAddr::V4(Ipv4Addr::new(127, 0, 0, 2)) };
    if c.local_addr {
        req = req.set_local_addr(local_ip);
    }
    // the port the request stands for: the host's own port wins over set_port
    let eff_port = host_port.or(set_port).unwrap_or(0);
    let log = Rc::new(RefCell::new(vec![]));
    let answer = match &c.resolver {
        Res::Ok { idx } => Ok(list(idx)),
        Res::Empty => Ok(vec![]),
        Res::Err => Err(()),
    };
    let resolver = Resolver::custom(LogResolver { log: log.clone(), answer: answer.clone() });
    // expectation
    #[derive(Debug, PartialEq)]
    enum Want {
        Addrs(Vec<SocketAddr>),
        NoRecords,
        ResolverErr,
        Unresolved,
    }
    let resolution_runs = !matches!(c.via, Via::TcpOnly);
    let (want, want_lookups): (Want, usize) = if let Some(a) = &preset_addrs {
        (Want::Addrs(a.clone()), 0)
    } else if !resolution_runs {
        (Want::Unresolved, 0)
    } else if is_ip {
        (Want::Addrs(vec![SocketAddr::from((Ipv4Addr::LOCALHOST, eff_port))]), 0)
    } else {
        match &answer {
            Err(()) => (Want::ResolverErr, 1),
            Ok(l) if l.is_empty() => (Want::NoRecords, 1),
            Ok(l) => (Want::Addrs(l.clone()), 1),
        }
    };
    // run
    let result: Result<Connection<String, actix_rt::net::TcpStream>, ConnectError> = match c.via {
        Via::Connector => {
            let svc = Connector::new(resolver).service();
            tokio::time::timeout(Duration::from_secs(10), svc.call(req)).await.map_err(|_| Fail::new("C19/hang", "Connector did not resolve within 10 s"))?
        }
        Via::ConnectorFactory => {
            let svc = ServiceFactory::<ConnectInfo<String>>::new_service(&Connector::new(resolver), ()).await.map_err(|_| Fail::new("C19/factory", "Connector::new_service failed"))?;
            tokio::time::timeout(Duration::from_secs(10), svc.call(req)).await.map_err(|_| Fail::new("C19/hang", "Connector did not resolve within 10 s"))?
        }
        Via::Split | Via::SplitFactory => {
            let r = if c.via == Via::Split { resolver.service() } else { ServiceFactory::<ConnectInfo<String>>::new_service(&resolver, ()).await.map_err(|_| Fail::new("C19/factory", "Resolver::new_service failed"))? };
            match tokio::time::timeout(Duration::from_secs(10), r.call(req)).await.map_err(|_| Fail::new("C19/hang", "resolver did not resolve within 10 s"))? {
                Ok(req2) => {
                    // the resolver must hand on exactly the expected address list
                    if let Want::Addrs(a) = &want {
                        let got: Vec<SocketAddr> = req2.addrs().collect();
                        if &got != a {
                            return Err(Fail::new("C19/resolution", format!("resolver service produced addresses {:?}, expected {:?} (host {:?}, preset {:?}, set_port {:?})", got, a, host, c.preset, set_port)));
                        }
                    }
                    let t = if c.via == Via::Split { TcpConnector::default().service() } else { ServiceFactory::<ConnectInfo<String>>::new_service(&TcpConnector::default(), ()).await.map_err(|_| Fail::new("C19/factory", "TcpConnector::new_service failed"))? };
                    tokio::time::timeout(Duration::from_secs(10), t.call(req2)).await.map_err(|_| Fail::new("C19/hang", "TCP connector did not resolve within 10 s"))?
                }
                Err(e) => Err(e),
            }
        }
        Via::TcpOnly => tokio::time::timeout(Duration::from_secs(10), TcpConnector::default().service().call(req)).await.map_err(|_| Fail::new("C19/hang", "TCP connector did not resolve within 10 s"))?,
    };
    // resolver call log
    let lookups = log.borrow().clone();
    if lookups.len() != want_lookups {
        return Err(Fail::new("C19/resolver-calls", format!("the resolver was called {} time(s) ({:?}), expected {} (host {:?}, preset {:?})", lookups.len(), lookups, want_lookups, host, c.preset)));
    }
    if want_lookups == 1 {
        let (h, p) = &lookups[0];
        if h != host_name || *p != eff_port {
            return Err(Fail::new("C19/resolver-args", format!("the resolver was asked for ({:?}, {}), expected ({:?}, {})", h, p, host_name, eff_port)));
        }
    }
    // addresses of the returned stream, taken before the listeners reset their ends
    let stream_addrs = result.as_ref().ok().map(|conn| (conn.io_ref().peer_addr(), conn.io_ref().local_addr()));
    if let Ok(conn) = &result {
        let _ = socket2::SockRef::from(conn.io_ref()).set_linger(Some(Duration::ZERO));
    }
    // let the listeners see their connections
    tokio::time::sleep(Duration::from_millis(2)).await;
    let accepts: Vec<usize> = socks
        .iter()
        .map(|s| match s {
            Sock::Live(l) => {
                let mut k = 0;
                while let Ok((s, _)) = l.accept() {
                    // close with RST: no TIME_WAIT (tens of thousands of cases would exhaust the ports)
                    let _ = socket2::SockRef::from(&s).set_linger(Some(Duration::ZERO));
                    k += 1;
                }
                k
            }
            Sock::Closed(_) => 0,
        })
        .collect();
    // a socket bound to an address of one family cannot connect to the other family: such a target
    // fails like a closed one (with some other I/O error) and the next address is tried
    let reachable = |a: &SocketAddr| !c.local_addr || a.is_ipv4() == local_ip.is_ipv4();
    let is_live = |a: &SocketAddr| reachable(a) && addrs.iter().position(|x| x == a).map(|i| matches!(socks[i], Sock::Live(_))).unwrap_or(false);
    let mut obs = Obs::new();
    match (&want, &result) {
        (Want::NoRecords, Err(ConnectError::NoRecords)) | (Want::ResolverErr, Err(ConnectError::Resolver(_))) | (Want::Unresolved, Err(ConnectError::Unresolved)) => {
            obs.label("resolution-error");
        }
        (Want::Addrs(list), res) => {
            let first_live = list.iter().position(is_live);
            match (first_live, res) {
                (Some(k), Ok(conn)) => {
                    let (peer, local) = stream_addrs.as_ref().map(|(p, l)| (p.as_ref().ok().copied(), l.as_ref().ok().copied())).unwrap_or((None, None));
                    let Some(peer) = peer else { return Err(Fail::new("harness/peer", "cannot read the peer address of the returned stream")) };
                    if peer != list[k] {
                        return Err(Fail::new("C19/wrong-address", format!("connected to {} but the first address of {:?} that accepts connections is {} (host {:?}, preset {:?})", peer, list, list[k], host, c.preset)));
                    }
                    if c.local_addr && local.map(|a| a.ip()) != Some(local_ip) {
                        return Err(Fail::new("C19/local-addr", "the requested local bind address was not used"));
                    }
                    // no address after the successful one was dialled; the successful one exactly once per occurrence
                    for (i, a) in addrs.iter().enumerate() {
                        let before = list[..=k].iter().filter(|x| *x == a).count();
                        let pos_first = list.iter().position(|x| x == a);
                        if matches!(socks[i], Sock::Live(_)) {
                            let expect = if pos_first.map(|p| p <= k).unwrap_or(false) && reachable(a) { 1 } else { 0 };
                            let _ = before;
                            if accepts[i] != expect {
                                return Err(Fail::new("C19/dial-order", format!("listener {} ({}) saw {} connection(s), expected {}: addresses {:?} must be dialled in order and only until the first success (accepts {:?})", i, a, accepts[i], expect, list, accepts)));
                            }
                        }
                    }
                    obs.label_if(k > 0, "closed-before-live");
                    obs.label_if(list.iter().filter(|a| is_live(a)).count() >= 2, "two-live");
                    if conn.request() != &host {
                        return Err(Fail::new("C19/request-lost", "the connection does not carry the original request"));
                    }
                }
                (None, Err(ConnectError::Io(e))) => {
                    if matches!(e.kind(), std::io::ErrorKind::AddrInUse | std::io::ErrorKind::AddrNotAvailable) {
                        // the machine ran out of ephemeral ports: the harness cannot judge this case
                        return Err(Fail::new("harness/ports", format!("connect failed with {:?}: ephemeral ports exhausted", e.kind())));
                    }
                    let last_unreachable = list.last().map(|a| !reachable(a)).unwrap_or(false);
                    if last_unreachable {
                        obs.label("other-family-address");
                    }
                    if !last_unreachable && !list.iter().all(|a| a.port() == 0) && e.kind() != std::io::ErrorKind::ConnectionRefused {
                        return Err(Fail::new("C19/last-error", format!("all addresses {:?} refuse connections, yet the error is {:?}", list, e.kind())));
                    }
                    obs.label("all-closed");
                }
                (Some(k), Err(e)) => return Err(Fail::new("C19/fallback", format!("address {} of {:?} accepts connections but the connector failed with {}", k, list, e))),
                (None, Ok(conn)) => return Err(Fail::new("C19/wrong-address", format!("no address of {:?} accepts connections but a stream to {:?} was returned", list, conn.io_ref().peer_addr()))),
                (None, Err(e)) => return Err(Fail::new("C19/error-kind", format!("all addresses {:?} refuse connections; expected an I/O error, got {}", list, e))),
            }
        }
        (w, Ok(conn)) => return Err(Fail::new("C19/error-expected", format!("expected {:?} but a connection to {:?} was returned", w, conn.io_ref().peer_addr()))),
        (w, Err(e)) => return Err(Fail::new("C19/error-kind", format!("expected {:?}, got error {}", w, e))),
    }
    if let Want::Addrs(list) = &want {
        obs.label_if(c.local_addr && list.iter().any(|a| !reachable(a)), "other-family-address");
        obs.label_if(c.local_addr && list.len() >= 2 && list.iter().all(|a| !reachable(a)), "all-addresses-other-family");
    }
    let bypass = want_lookups == 0 && resolution_runs;
    obs.label_if(bypass, "resolver-bypassed");
    obs.label_if(matches!(c.via, Via::ConnectorFactory | Via::SplitFactory), "service-from-factory");
    obs.label_if(preset_addrs.is_some() && is_ip, "preset+ip-literal");
    obs.nontrivial = obs.labels.contains(&"closed-before-live") || obs.labels.contains(&"two-live") || bypass || obs.labels.contains(&"resolution-error");
    Ok(obs)
}

/// default (system) resolver: only `localhost` can be resolved in the sandbox. `n_closed` closed
/// ports are irrelevant here; the request is "localhost:<port of a live listener>" and the answer
/// may list ::1 first (refused: nothing listens there) — the connector must fall back in order.
#[derive(Clone, Debug, Serialize, Deserialize, PartialEq)]
pub struct DefaultCase {
    pub via_connector: bool,
    pub set_port: bool,
}

pub fn check_default(c: &DefaultCase) -> CaseResult {
    thread_local! {
        static RT: tokio::runtime::Runtime = tokio::runtime::Builder::new_current_thread().enable_all().build().unwrap();
    }
    RT.with(|rt| {
        let ls = tokio::task::LocalSet::new();
        ls.block_on(rt, async {
            for _rep in 0..7 {
                check_default_once(c).await?;
            }
            check_default_once(c).await
        })
    })
}

async fn check_default_once(c: &DefaultCase) -> CaseResult {
    {
        {
            let l = std::net::TcpListener::bind("127.0.0.1:0").map_err(|e| Fail::new("harness/setup", format!("{e}")))?;
            l.set_nonblocking(true).ok();
            let addr = l.local_addr().unwrap();
            let req = if c.set_port { ConnectInfo::new("localhost".to_string()).set_port(addr.port()) } else { ConnectInfo::new(format!("localhost:{}", addr.port())) };
            let res = if c.via_connector {
                tokio::time::timeout(Duration::from_secs(10), Connector::default().service().call(req)).await.map_err(|_| Fail::new("C19/hang", "Connector (default resolver) did not resolve within 10 s"))?
            } else {
                match tokio::time::timeout(Duration::from_secs(10), Resolver::default().service().call(req)).await.map_err(|_| Fail::new("C19/hang", "default resolver did not resolve within 10 s"))? {
                    Ok(r2) => {
                        let got: Vec<SocketAddr> = r2.addrs().collect();
                        if got.is_empty() || got.iter().any(|a| a.port() != addr.port()) {
                            return Err(Fail::new("C19/default-resolver", format!("the default resolver produced {:?} for localhost:{}", got, addr.port())));
                        }
                        tokio::time::timeout(Duration::from_secs(10), TcpConnector::default().service().call(r2)).await.map_err(|_| Fail::new("C19/hang", "TCP connector did not resolve within 10 s"))?
                    }
                    Err(e) => Err(e),
                }
            };
            match res {
                Ok(conn) => {
                    let peer = conn.io_ref().peer_addr().ok();
                    let _ = socket2::SockRef::from(conn.io_ref()).set_linger(Some(Duration::ZERO));
                    if peer != Some(addr) {
                        return Err(Fail::new("C19/wrong-address", format!("localhost:{} connected to {:?}", addr.port(), peer)));
                    }
                }
                Err(e) => return Err(Fail::new("C19/default-resolver", format!("connecting to localhost:{} (a live listener on 127.0.0.1) failed: {}", addr.port(), e))),
            }
            let mut obs = Obs::new();
            obs.nontrivial = true;
            obs.label("default-resolver");
            Ok(obs)
        }
    }
}

// ================================================================================================
// TLS connectors over in-memory pipes
// ================================================================================================

#[derive(Clone, Copy, Debug, Serialize, Deserialize, PartialEq, Eq)]
pub enum Lib {
    Rustls,
    Openssl,
}

#[derive(Clone, Debug, Serialize, Deserialize, PartialEq)]
pub struct TlsCase {
    pub connector: Lib,
    pub server: Lib,
    /// DNS names in the server certificate
    pub san_dns: Vec<String>,
    /// IP addresses in the server certificate
    pub san_ip: Vec<u8>,
    pub trusted_issuer: bool,
    /// requested host (hostname[:port] as the request carries it)
    pub host: String,
    pub payload: u32,
    /// connections made earlier through the same connector service object, to hosts taken from
    /// the certificate's DNS names (index into them); the server side is one acceptor for all
    #[serde(default)]
    pub prior: Vec<u8>,
    /// an OpenSSL server restricted to TLS 1.2
    #[serde(default)]
    pub server_tls12: bool,
}

fn pattern(seed: u8, n: usize) -> Vec<u8> {
    (0..n).map(|i| seed.wrapping_add((i as u8).wrapping_mul(17)).wrapping_add((i >> 8) as u8)).collect()
}

/// does a certificate with these SANs cover `hostname` (reference: exact DNS match, case
/// insensitive, single left-most wildcard label; IP literals only against IP SANs)
fn covered(hostname: &str, dns: &[String], ips: &[IpAddr]) -> bool {
    if let Ok(ip) = hostname.parse::<IpAddr>() {
        return ips.contains(&ip);
    }
    let h = hostname.to_ascii_lowercase();
    dns.iter().any(|d| {
        let d = d.to_ascii_lowercase();
        if let Some(rest) = d.strip_prefix("*.") {
            h.split_once('.').map(|(first, tail)| !first.is_empty() && tail == rest).unwrap_or(false)
        } else {
            d == h
        }
    })
}

fn valid_dns_name(h: &str) -> bool {
    !h.is_empty()
        && h.len() <= 253
        && h.split('.').all(|l| !l.is_empty() && l.len() <= 63 && l.chars().all(|c| c.is_ascii_alphanumeric() || c == '-' || c == '_') && !l.starts_with('-') && !l.ends_with('-'))
}

pub fn check_tls(c: &TlsCase) -> CaseResult {
    let c2 = c.clone();
    // handshake libraries may panic on odd names: a panic is a violation ("otherwise return an error")
    let r = std::panic::catch_unwind(std::panic::AssertUnwindSafe(|| {
        thread_local! {
            static RT: tokio::runtime::Runtime = tokio::runtime::Builder::new_current_thread().enable_all().build().unwrap();
        }
        RT.with(|rt| {
            let ls = tokio::task::LocalSet::new();
            ls.block_on(rt, run_tls(&c2))
        })
    }));
    match r {
        Ok(r) => r,
        Err(p) => Err(Fail::new("C19/tls-panic", format!("the TLS connector panicked for host {:?}: {}", c.host, vcore::panic_message(&*p)))),
    }
}

async fn run_tls(c: &TlsCase) -> CaseResult {
    certs::pki();
    let ips: Vec<IpAddr> = c.san_ip.iter().map(|b| IpAddr::V4(Ipv4Addr::new(127, 0, 0, *b))).collect();
    let (cert, key) = certs::leaf(&c.san_dns, &ips, c.trusted_issuer);
    let n = c.payload as usize;
    // one server identity (and, for OpenSSL, one acceptor context: sessions can be resumed) for every
    // connection of the case
    enum Acc {
        R(tokio_rustls::TlsAcceptor),
        O(openssl::ssl::SslAcceptor),
    }
    let acc = match c.server {
        Lib::Rustls => {
            let cfg = rustls::ServerConfig::builder()
                .with_no_client_auth()
                .with_single_cert(vec![rustls_pki_types::CertificateDer::from(cert)], rustls_pki_types::PrivateKeyDer::Pkcs8(rustls_pki_types::PrivatePkcs8KeyDer::from(key)))
                .map_err(|e| Fail::new("harness/setup", format!("{e}")))?;
            Acc::R(tokio_rustls::TlsAcceptor::from(Arc::new(cfg)))
        }
        Lib::Openssl => {
            use openssl::{pkey::PKey, ssl::{SslAcceptor, SslMethod, SslVersion}, x509::X509};
            let h = |e: openssl::error::ErrorStack| Fail::new("harness/setup", format!("{e}"));
            // (the older profile is a TLS 1.2 server: a session is resumable as soon as the handshake has completed)
            let mut b = if c.server_tls12 { SslAcceptor::mozilla_intermediate(SslMethod::tls()).map_err(h)? } else { SslAcceptor::mozilla_intermediate_v5(SslMethod::tls()).map_err(h)? };
            let pk = PKey::private_key_from_pkcs8(&key).map_err(h)?;
            let x = X509::from_der(&cert).map_err(h)?;
            b.set_private_key(&pk).map_err(h)?;
            b.set_certificate(&x).map_err(h)?;
            if c.server_tls12 {
                b.set_max_proto_version(Some(SslVersion::TLS1_2)).map_err(h)?;
            }
            Acc::O(b.build())
        }
    };
    // one connector service object for every connection of the case
    enum Con {
        R(connect::rustls_0_23::TlsConnectorService),
        O(connect::openssl::TlsConnectorService),
    }
    let con = match c.connector {
        Lib::Rustls => {
            static CFG: std::sync::OnceLock<Arc<rustls::ClientConfig>> = std::sync::OnceLock::new();
            let cfg = CFG
                .get_or_init(|| {
                    let mut roots = rustls::RootCertStore::empty();
                    roots.add(rustls_pki_types::CertificateDer::from(certs::ca_der())).unwrap();
                    Arc::new(rustls::ClientConfig::builder().with_root_certificates(roots).with_no_client_auth())
                })
                .clone();
            Con::R(connect::rustls_0_23::TlsConnector::service(cfg))
        }
        Lib::Openssl => {
            use openssl::{ssl::{SslConnector, SslMethod}, x509::X509};
            // (the service object is the case's own: whatever it remembers between calls stays in the case)
            static CON: std::sync::OnceLock<SslConnector> = std::sync::OnceLock::new();
            let con = CON
                .get_or_init(|| {
                    let mut b = SslConnector::builder(SslMethod::tls()).unwrap();
                    b.cert_store_mut().add_cert(X509::from_der(&certs::ca_der()).unwrap()).unwrap();
                    b.build()
                })
                .clone();
            Con::O(connect::openssl::TlsConnector::service(con))
        }
    };
    // earlier connections through the same service object: hosts taken from the certificate's names
    let mut hosts: Vec<String> = vec![];
    for i in c.prior.iter().take(2) {
        if !c.san_dns.is_empty() {
            let d = &c.san_dns[*i as usize % c.san_dns.len()];
            hosts.push(match d.strip_prefix("*.") {
                Some(rest) => format!("w.{rest}"),
                None => d.clone(),
            });
        }
    }
    let priors = hosts.len();
    hosts.push(c.host.clone());
    let mut obs = Obs::new();
    let mut last_expect_ok = false;
    let mut open: Vec<Box<dyn std::any::Any>> = vec![];
    let mut servers = vec![];
    for (k, host) in hosts.iter().enumerate() {
        let (server_end, client_end) = pipe_pair();
        let server_task = match &acc {
            Acc::R(a) => {
                let a = a.clone();
                tokio::task::spawn_local(async move {
                    let mut s = a.accept(server_end).await.map_err(|e| format!("{e}"))?;
                    echo(&mut s, n).await
                })
            }
            Acc::O(a) => {
                let ssl = openssl::ssl::Ssl::new(a.context()).map_err(|e| Fail::new("harness/setup", format!("{e}")))?;
                tokio::task::spawn_local(async move {
                    let mut s = tokio_openssl::SslStream::new(ssl, server_end).map_err(|e| format!("{e}"))?;
                    Pin::new(&mut s).accept().await.map_err(|e| format!("{e}"))?;
                    echo(&mut s, n).await
                })
            }
        };
        let conn = Connection::new(host.clone(), client_end);
        let hostname = connect::Host::hostname(host).to_string();
        let expect_ok = c.trusted_issuer && (hostname.parse::<IpAddr>().is_ok() || valid_dns_name(&hostname)) && covered(&hostname, &c.san_dns, &ips);
        let res: Result<Result<(), String>, String> = match &con {
            Con::R(svc) => match tokio::time::timeout(Duration::from_secs(10), <connect::rustls_0_23::TlsConnectorService as Service<Connection<String, Pipe>>>::call(svc, conn)).await {
                Err(_) => return Err(Fail::new("C19/tls-hang", "TLS connect did not resolve within 10 s")),
                Ok(Ok(mut s)) => {
                    let r = roundtrip(&mut *s, n).await;
                    open.push(Box::new(s));
                    Ok(r)
                }
                Ok(Err(e)) => Err(format!("{e}")),
            },
            Con::O(svc) => match tokio::time::timeout(Duration::from_secs(10), <connect::openssl::TlsConnectorService as Service<Connection<String, Pipe>>>::call(svc, conn)).await {
                Err(_) => return Err(Fail::new("C19/tls-hang", "TLS connect did not resolve within 10 s")),
                Ok(Ok(mut s)) => {
                    let r = roundtrip(&mut *s, n).await;
                    open.push(Box::new(s));
                    Ok(r)
                }
                Ok(Err(e)) => Err(format!("{e}")),
            },
        };
        // earlier connections stay open (a pool keeps them) while later ones are made
        servers.push(server_task);
        let nth = if priors > 0 { format!(" (connection {} of {} through one service object; earlier hosts {:?})", k + 1, hosts.len(), &hosts[..k]) } else { String::new() };
        match (&res, expect_ok) {
            (Ok(Ok(())), true) => {
                if k + 1 == hosts.len() {
                    obs.label("handshake-ok");
                } else {
                    obs.label("earlier-handshake-ok-on-the-same-service");
                }
            }
            (Ok(Err(e)), true) => return Err(Fail::new("C19/tls-integrity", format!("handshake succeeded for {:?} but the data exchange failed: {}{}", host, e, nth))),
            (Err(e), true) => return Err(Fail::new("C19/tls-rejected", format!("the certificate (DNS {:?}, IP {:?}, trusted issuer) covers {:?} but the {:?} connector failed: {}{}", c.san_dns, ips, hostname, c.connector, e, nth))),
            (Ok(_), false) => return Err(Fail::new("C19/tls-accepted", format!("the {:?} connector returned a TLS stream for host {:?} although the certificate (DNS {:?}, IP {:?}, trusted issuer: {}) is not valid for it{}", c.connector, host, c.san_dns, ips, c.trusted_issuer, nth))),
            (Err(_), false) => {
                if k + 1 == hosts.len() {
                    obs.label("handshake-rejected");
                }
            }
        }
        last_expect_ok = expect_ok;
    }
    drop(open);
    for t in servers {
        t.abort();
    }
    let hostname = connect::Host::hostname(&c.host).to_string();
    obs.nontrivial = !last_expect_ok || c.payload > 16384;
    obs.label_if(hostname.parse::<IpAddr>().is_ok(), "ip-literal-host");
    obs.label_if(!c.trusted_issuer, "untrusted-issuer");
    obs.label_if(!valid_dns_name(&hostname) && hostname.parse::<IpAddr>().is_err(), "invalid-name");
    obs.label_if(obs.labels.contains(&"earlier-handshake-ok-on-the-same-service") && !last_expect_ok, "rejected-after-an-accepted-host");
    Ok(obs)
}

async fn echo<S: tokio::io::AsyncRead + tokio::io::AsyncWrite + Unpin>(s: &mut S, n: usize) -> Result<(), String> {
    let mut got = vec![0u8; n];
    s.read_exact(&mut got).await.map_err(|e| format!("server read: {e}"))?;
    // answer with a transformed copy so that both directions are checked
    let back: Vec<u8> = got.iter().map(|b| b ^ 0x5a).collect();
    s.write_all(&back).await.map_err(|e| format!("server write: {e}"))?;
    s.flush().await.map_err(|e| format!("server flush: {e}"))?;
    std::future::pending::<()>().await;
    Ok(())
}

async fn roundtrip<S: tokio::io::AsyncRead + tokio::io::AsyncWrite + Unpin>(s: &mut S, n: usize) -> Result<(), String> {
    let data = pattern(3, n);
    s.write_all(&data).await.map_err(|e| format!("client write: {e}"))?;
    s.flush().await.map_err(|e| format!("client flush: {e}"))?;
    let mut got = vec![0u8; n];
    tokio::time::timeout(Duration::from_secs(10), s.read_exact(&mut got)).await.map_err(|_| "client read timed out".to_string())?.map_err(|e| format!("client read: {e}"))?;
    let want: Vec<u8> = data.iter().map(|b| b ^ 0x5a).collect();
    if got != want {
        return Err("payload changed in transit".into());
    }
    Ok(())
}

// ---- generators --------------------------------------------------------------------------------

pub fn tcp_strategy() -> impl Strategy<Value = TcpCase> {
    let idx = || prop_oneof![1 => prop::collection::vec(0u8..4, 0..2), 4 => prop::collection::vec(0u8..4, 2..5)];
    (
        prop_oneof![
            1 => prop::collection::vec(prop_oneof![1 => Just(Target::Live), 1 => Just(Target::Closed)], 0..2),
            4 => prop::collection::vec(prop_oneof![3 => Just(Target::Live), 2 => Just(Target::Closed)], 2..5),
            2 => prop::collection::vec(prop_oneof![2 => Just(Target::Live), 1 => Just(Target::Closed), 3 => Just(Target::Live6), 2 => Just(Target::Closed6)], 2..5),
            1 => prop::collection::vec(prop_oneof![3 => Just(Target::Live6), 2 => Just(Target::Closed6)], 2..5),
        ],
        prop_oneof![3 => Just(HostKind::Name), 2 => (0u8..4).prop_map(|i| HostKind::NameWithPort { i }), 2 => Just(HostKind::Ip), 3 => (0u8..4).prop_map(|i| HostKind::IpWithPort { i }), 1 => Just(HostKind::Localhost), 1 => (0u8..4).prop_map(|i| HostKind::LocalhostWithPort { i })],
        prop_oneof![4 => Just(Preset::None), 2 => (0u8..4).prop_map(|i| Preset::WithAddr { i }), 2 => (0u8..4).prop_map(|i| Preset::SetAddr { i }), 3 => idx().prop_map(|idx| Preset::SetAddrs { idx })],
        prop::option::weighted(0.4, 0u8..4),
        prop_oneof![6 => idx().prop_map(|idx| Res::Ok { idx }), 1 => Just(Res::Empty), 1 => Just(Res::Err)],
        prop::bool::weighted(0.3),
        prop_oneof![3 => Just(Via::Connector), 2 => Just(Via::Split), 1 => Just(Via::TcpOnly), 2 => Just(Via::ConnectorFactory), 1 => Just(Via::SplitFactory)],
        prop::bool::weighted(0.3),
    )
        .prop_map(|(targets, host, preset, set_port, resolver, local_addr, via, local_v6)| TcpCase { targets, host, preset, set_port, resolver, local_addr, via, local_v6 })
}

pub fn tls_strategy() -> impl Strategy<Value = TlsCase> {
    let names = vec!["localhost", "example.test", "a.example.test", "b.example.test", "other.test", "*.example.test"];
    let hosts = vec![
        "localhost", "example.test", "a.example.test", "b.example.test", "other.test", "LOCALHOST", "deep.a.example.test", "example.test:8443", "localhost:1",
        "127.0.0.1", "127.0.0.2", "127.0.0.1:8443", "127.0.0.3", "exa mple", "-bad-.test", "a..b", "", "local_host", "xn--nxasmq6b.test", "::1", "LONG",
    ];
    (
        prop::sample::select(vec![Lib::Rustls, Lib::Openssl]),
        prop::sample::select(vec![Lib::Rustls, Lib::Openssl]),
        prop::collection::vec(prop::sample::select(names).prop_map(String::from), 0..3),
        prop::collection::vec(1u8..4, 0..2),
        prop::bool::weighted(0.8),
        prop_oneof![
            5 => prop::sample::select(hosts).prop_map(String::from),
            // a valid (often covered) name decorated with characters that make it syntactically invalid
            2 => (prop::sample::select(vec!["localhost", "example.test", "a.example.test"]), prop::sample::select(vec!["[", "]", "[[", "]]", "(", ")", "/", "@", "#", "%", " ", "!", "~", "\\", "\""]), prop::sample::select(vec!["", "[", "]", "]]", ")", "/", " ", "~"]), 0u8..3)
                .prop_map(|(name, a, b, how)| match how {
                    0 => format!("{a}{name}{b}"),
                    1 => format!("{name}{a}"),
                    _ => format!("{a}{name}"),
                }),
        ],
        prop_oneof![3 => 0u32..200, 1 => prop::sample::select(vec![16384u32, 16385, 65536])],
        prop_oneof![3 => Just(vec![]), 2 => prop::collection::vec(any::<u8>(), 1..3)],
        any::<bool>(),
    )
        .prop_map(|(connector, server, san_dns, san_ip, trusted_issuer, host, payload, prior, server_tls12)| {
            let host = if host == "LONG" { format!("{}.test", "a".repeat(300)) } else { host };
            TlsCase { connector, server, san_dns, san_ip, trusted_issuer, host, payload, prior, server_tls12 }
        })
}

const RULE_TCP: &str = "(0..4 loopback targets each live (counts accepts) or closed (bound, not listening), host string name / name:port / localhost / LOCALHOST:port / IPv4 literal / literal:port, addresses pre-set through with_addr / set_addr / set_addrs or not, optional set_port, custom resolver answering ok(list) / empty / error with a call log, optional local bind address 127.0.0.2 or ::1 with targets on either loopback family (an address of the other family fails like a closed one and the next is tried); run through Connector, Resolver+TcpConnector, or TcpConnector alone); oracle: resolver not consulted when addresses are pre-set or the host is an IP literal (dialled at the request's port), otherwise exactly one lookup (hostname, port); NoRecords / Resolver / Unresolved errors; the stream's peer is the first live address in order, every live listener sees exactly the connections the in-order dialling implies, all-closed => Io(ConnectionRefused); non-trivial = a closed address before a live one, >= 2 live addresses, a bypassed resolver, or a resolution error";
const RULE_TLS: &str = "(connector in {rustls 0.23, OpenSSL}, server in {rustls, OpenSSL}, leaf certificate with generated DNS / IP subject alternative names signed by the trusted or an untrusted CA, requested host from covered / uncovered / wildcard-covered / IP-literal / syntactically invalid printable names (fixed examples and valid names decorated with brackets, slashes, blanks and other punctuation in front, behind or around) with or without port, payload up to 64 KiB; optionally one or two earlier connections through the same connector service object to hosts named in the certificate, the server being one acceptor for all of them, an OpenSSL server optionally limited to TLS 1.2 so that sessions can be resumed) over in-memory pipes; oracle (every connection): a TLS stream is returned iff the issuer is trusted and the name is valid and covered (reference matcher), then the payload round-trips in both directions; otherwise an error, never a panic; non-trivial = a case that must fail, or payload > 16 KiB";

pub fn run(ctx: &Ctx) {
    ctx.assume("the default (system) resolver is not exercised (no DNS in the sandbox); hostname coverage reference: exact or single-label wildcard DNS match, IP literals only against IP SANs");
    ctx.run_corpus::<TcpCase>("tcp", check_tcp);
    ctx.run_corpus::<TlsCase>("tls", check_tls);
    ctx.run_random(
        Part::new("tcp", RULE_TCP, ctx.tier.scale(20_000, 8)).floors(&[("closed-before-live", 0.03), ("two-live", 0.1), ("resolver-bypassed", 0.3), ("resolution-error", 0.1), ("preset+ip-literal", 0.1), ("other-family-address", 0.04), ("all-addresses-other-family", 0.01), ("service-from-factory", 0.15)]).shrink_iters(2000),
        tcp_strategy,
        check_tcp,
    );
    // the system resolver: only where "localhost" resolves (skipped, not failed, otherwise)
    if std::net::ToSocketAddrs::to_socket_addrs(&("localhost", 80)).map(|mut i| i.next().is_some()).unwrap_or(false) {
        let cases = [(true, true), (true, false), (false, true), (false, false)];
        ctx.run_enum(
            Part::new("default-resolver", "request host \"localhost\" (port in the host string or through set_port) resolved by the default system resolver and dialled by Connector / Resolver+TcpConnector against a live listener on 127.0.0.1: the stream must reach that listener (the answer may list ::1 first, which refuses); 4 configurations, each run 8 times inside one case; non-trivial = always", 4).shards(4),
            |shard, n, f: &mut dyn FnMut(&DefaultCase) -> bool| {
                for i in 0..4usize {
                    if i % n == shard {
                        let (via_connector, set_port) = cases[i];
                        if !f(&DefaultCase { via_connector, set_port }) {
                            return;
                        }
                    }
                }
            },
            check_default,
        );
    }
    ctx.run_random(
        Part::new("tls", RULE_TLS, ctx.tier.scale(12_000, 8)).floors(&[("handshake-ok", 0.03), ("handshake-rejected", 0.4), ("ip-literal-host", 0.1), ("untrusted-issuer", 0.1), ("invalid-name", 0.1)]).shrink_iters(500),
        tls_strategy,
        check_tls,
    );
}

pub fn replay(ctx: &Ctx, v: &Value) -> i32 {
    match v["part"].as_str().unwrap_or("") {
        p if p.starts_with("tls") => ctx.replay::<TlsCase>(v, check_tls),
        p if p.starts_with("default-resolver") => ctx.replay::<DefaultCase>(v, check_default),
        _ => ctx.replay::<TcpCase>(v, check_tcp),
    }
}
