//! Generators and check entry points of the L2-based parts of C01–C05 and C08.

use proptest::prelude::*;
use vcore::{CaseResult, Ctx, Part};

use crate::l2::{run_case, Case, ErrKind, LKind, Op, Prop};

#[derive(Clone, Copy)]
pub struct Profile {
    pub max_workers: usize,
    pub limits: &'static [usize],
    pub uds: bool,
    pub two_listeners: bool,
    pub w_connect: u32,
    pub w_race: u32,
    pub w_ctl: u32,
    pub w_stop: u32,
    pub w_inject: u32,
    pub w_advance: u32,
    pub w_kill: u32,
    pub max_phrases: usize,
    pub w_burst: u32,
    /// weight of "a few hundred clients connect at once" (effective with limit 1000 only)
    pub w_flood: u32,
}

fn sel() -> impl Strategy<Value = u16> {
    any::<u16>()
}

fn advance_ms() -> impl Strategy<Value = u32> {
    prop_oneof![4 => prop::sample::select(vec![0u32, 100, 250, 499, 500, 509, 510, 511, 600, 1000]), 1 => 0u32..1200]
}

fn errkind() -> impl Strategy<Value = ErrKind> {
    prop::sample::select(vec![ErrKind::Aborted, ErrKind::Reset, ErrKind::Refused, ErrKind::Emfile, ErrKind::Enfile, ErrKind::Other])
}

/// a "phrase": one op or a short idiom that makes an interesting situation likely
fn phrase(p: Profile) -> impl Strategy<Value = Vec<Op>> {
    let one = |o: Op| vec![o];
    let mut alts: Vec<(u32, BoxedStrategy<Vec<Op>>)> = vec![
        (p.w_connect, sel().prop_map(move |l| one(Op::Connect { l })).boxed()),
        (3, Just(vec![Op::Step]).boxed()),
        (3, Just(vec![Op::Quiesce]).boxed()),
        (3, sel().prop_map(move |w| one(Op::Pickup { w })).boxed()),
        (3, (sel(), sel()).prop_map(move |(w, k)| one(Op::Finish { w, k })).boxed()),
        // burst then quiesce
        (2, (prop::collection::vec(sel(), 2..6)).prop_map(|ls| {
            let mut v: Vec<Op> = ls.into_iter().map(|l| Op::Connect { l }).collect();
            v.push(Op::Quiesce);
            v
        }).boxed()),
        // pick up and finish one on some worker, then a new client, then quiesce (release pattern)
        (3, (sel(), sel(), sel()).prop_map(|(w, k, l)| vec![Op::Pickup { w }, Op::Finish { w, k }, Op::Connect { l }, Op::Quiesce]).boxed()),
        // saturate, then release exactly one and look for the next client being admitted
        (3, (prop::collection::vec(sel(), 3..8), sel(), sel()).prop_map(|(ls, w, k)| {
            let mut v: Vec<Op> = ls.into_iter().map(|l| Op::Connect { l }).collect();
            v.extend([Op::Quiesce, Op::Pickup { w }, Op::Finish { w, k }, Op::Quiesce]);
            v
        }).boxed()),
        // finish, burst, single step (stale wake pattern)
        (2, (sel(), sel(), sel()).prop_map(|(w, k, l)| vec![Op::Finish { w, k }, Op::Connect { l }, Op::Connect { l }, Op::Connect { l }, Op::Step]).boxed()),
    ];
    if p.w_race > 0 {
        alts.push((p.w_race, sel().prop_map(move |l| vec![Op::ConnectRace { l }]).boxed()));
        alts.push((p.w_race, sel().prop_map(move |l| vec![Op::ConnectRace { l }, Op::Connect { l }, Op::Quiesce]).boxed()));
    }
    if p.w_ctl > 0 {
        alts.push((p.w_ctl, Just(vec![Op::Pause]).boxed()));
        alts.push((p.w_ctl, Just(vec![Op::Resume]).boxed()));
        alts.push((p.w_ctl, sel().prop_map(|l| vec![Op::Pause, Op::Quiesce, Op::Connect { l }, Op::Quiesce, Op::Resume, Op::Quiesce]).boxed()));
        alts.push((p.w_ctl, sel().prop_map(|l| vec![Op::Pause, Op::Step, Op::Resume, Op::Step, Op::Connect { l }, Op::Quiesce]).boxed()));
    }
    if p.w_stop > 0 {
        alts.push((p.w_stop, Just(vec![Op::Stop]).boxed()));
    }
    if p.w_flood > 0 {
        alts.push((p.w_flood, (sel(), any::<u8>()).prop_map(|(l, n)| vec![Op::ConnectBurst { l, n }, Op::Quiesce]).boxed()));
        if p.w_ctl > 0 {
            alts.push((p.w_flood, (sel(), any::<u8>()).prop_map(|(l, n)| vec![Op::Pause, Op::Quiesce, Op::ConnectBurst { l, n }, Op::Quiesce, Op::Resume, Op::Quiesce]).boxed()));
        }
        if p.w_inject > 0 {
            alts.push((p.w_flood, (sel(), any::<u8>(), advance_ms()).prop_map(|(l, n, ms)| vec![Op::Inject { l, kind: ErrKind::Emfile }, Op::ConnectBurst { l, n }, Op::Quiesce, Op::Advance { ms }, Op::Quiesce]).boxed()));
        }
    }
    if p.w_burst > 0 {
        alts.push((p.w_burst, any::<u8>().prop_map(|n| vec![Op::CtlBurst { n }]).boxed()));
        // a burst with a connection behind it: the final state is "resumed"
        alts.push((p.w_burst, (any::<u8>(), sel()).prop_map(|(n, l)| vec![Op::CtlBurst { n }, Op::Connect { l }, Op::Quiesce]).boxed()));
        if p.w_stop > 0 {
            // a stop queued behind a burst of other commands
            alts.push((p.w_burst, any::<u8>().prop_map(|n| vec![Op::CtlBurst { n }, Op::Stop, Op::Quiesce]).boxed()));
        }
    }
    if p.w_inject > 0 {
        alts.push((p.w_inject, (sel(), errkind()).prop_map(|(l, kind)| vec![Op::Inject { l, kind }]).boxed()));
        alts.push((p.w_inject, (sel(), errkind(), advance_ms()).prop_map(|(l, kind, ms)| vec![Op::Inject { l, kind }, Op::Connect { l }, Op::Quiesce, Op::Advance { ms }, Op::Quiesce]).boxed()));
        alts.push((p.w_inject, (sel(), errkind(), advance_ms()).prop_map(|(l, kind, ms)| vec![Op::Inject { l, kind }, Op::Connect { l }, Op::Quiesce, Op::Pause, Op::Quiesce, Op::Advance { ms }, Op::Resume, Op::Connect { l }, Op::Quiesce]).boxed()));
    }
    if p.w_advance > 0 {
        alts.push((p.w_advance, advance_ms().prop_map(|ms| vec![Op::Advance { ms }]).boxed()));
    }
    if p.w_ctl > 0 {
        // saturate, pause, finish during the pause, resume: the freed worker must be used again
        alts.push((p.w_ctl, (prop::collection::vec(sel(), 2..6), sel(), sel(), sel()).prop_map(|(ls, w, k, l)| {
            let mut v: Vec<Op> = ls.into_iter().map(|l| Op::Connect { l }).collect();
            v.extend([Op::Quiesce, Op::Pickup { w }, Op::Pause, Op::Quiesce, Op::Finish { w, k }, Op::Quiesce, Op::Resume, Op::Connect { l }, Op::Quiesce]);
            v
        }).boxed()));
    }
    if p.w_kill > 0 && p.w_ctl > 0 {
        // the replacement arrives while the server is paused
        alts.push((p.w_kill, (sel(), sel(), sel()).prop_map(|(w, l, l2)| vec![Op::Kill { w }, Op::Connect { l }, Op::Quiesce, Op::Pause, Op::Quiesce, Op::Replace, Op::Quiesce, Op::Resume, Op::Connect { l: l2 }, Op::Quiesce]).boxed()));
    }
    if p.w_kill > 0 {
        // a notification of a live worker while another worker is being replaced
        alts.push((p.w_kill, (sel(), sel(), sel(), sel()).prop_map(|(w, w2, l, k)| vec![Op::Connect { l }, Op::Connect { l }, Op::Connect { l }, Op::Quiesce, Op::Kill { w }, Op::Connect { l }, Op::Quiesce, Op::Pickup { w: w2 }, Op::Finish { w: w2, k }, Op::Quiesce, Op::Replace, Op::Quiesce, Op::Connect { l }, Op::Connect { l }, Op::Quiesce]).boxed()));
        // restart, then saturate: positions and worker indices have diverged
        alts.push((p.w_kill, (sel(), sel(), prop::collection::vec(sel(), 3..8)).prop_map(|(w, l, ls)| {
            let mut v = vec![Op::Kill { w }, Op::Connect { l }, Op::Quiesce, Op::Replace, Op::Quiesce];
            v.extend(ls.into_iter().map(|l| Op::Connect { l }));
            v.push(Op::Quiesce);
            v
        }).boxed()));
        alts.push((p.w_kill, sel().prop_map(|w| vec![Op::Kill { w }]).boxed()));
        alts.push((p.w_kill, Just(vec![Op::Replace]).boxed()));
        alts.push((p.w_kill, (sel(), sel()).prop_map(|(w, l)| vec![Op::Kill { w }, Op::Connect { l }, Op::Quiesce, Op::Replace, Op::Quiesce]).boxed()));
        alts.push((p.w_kill, (sel(), sel(), sel()).prop_map(|(w, l, k)| vec![Op::Pickup { w }, Op::Kill { w }, Op::Connect { l }, Op::Quiesce, Op::Finish { w, k }, Op::Connect { l }, Op::Quiesce]).boxed()));
        alts.push((p.w_kill, (sel(), sel(), sel()).prop_map(|(w, l, k)| vec![Op::Kill { w }, Op::Connect { l }, Op::Quiesce, Op::Replace, Op::Finish { w, k }, Op::Quiesce, Op::Connect { l }, Op::Quiesce]).boxed()));
    }
    proptest::strategy::Union::new_weighted(alts)
}

pub fn strategy(p: Profile, deep: bool) -> impl Strategy<Value = Case> {
    let max_phrases = if deep { p.max_phrases * 2 } else { p.max_phrases };
    let max_conns = if deep { 24 } else { 12 };
    let kinds = if p.uds { vec![LKind::Tcp, LKind::Uds] } else { vec![LKind::Tcp] };
    let nl = if p.two_listeners { 1..3usize } else { 1..2usize };
    (
        1..=p.max_workers,
        prop::sample::select(p.limits.to_vec()),
        prop::collection::vec(prop::sample::select(kinds), nl),
        prop::collection::vec(phrase(p), 1..max_phrases),
    )
        .prop_map(move |(workers, limit, listeners, phrases)| {
            let mut ops: Vec<Op> = phrases.into_iter().flatten().collect();
            // keep a case within the exploration bound on total connections
            let mut conns = 0;
            ops.retain(|o| {
                if matches!(o, Op::Connect { .. } | Op::ConnectRace { .. }) {
                    conns += 1;
                    conns <= max_conns
                } else {
                    true
                }
            });
            Case { workers, limit, listeners, ops }
        })
}

pub const P_C01: Profile = Profile { max_workers: 3, limits: &[1, 2, 3, 1, 2, 3, 1000], uds: true, two_listeners: true, w_connect: 5, w_race: 1, w_ctl: 1, w_stop: 1, w_inject: 1, w_advance: 1, w_kill: 1, max_phrases: 10, w_burst: 0, w_flood: 2 };
pub const P_C02: Profile = Profile { max_workers: 3, limits: &[1, 2, 3, 4], uds: false, two_listeners: true, w_connect: 6, w_race: 2, w_ctl: 1, w_stop: 0, w_inject: 0, w_advance: 0, w_kill: 0, max_phrases: 10, w_burst: 0, w_flood: 0 };
pub const P_C03: Profile = Profile { max_workers: 3, limits: &[1, 1, 1, 2, 2, 2, 3, 4, 1000], uds: false, two_listeners: true, w_connect: 5, w_race: 2, w_ctl: 1, w_stop: 0, w_inject: 0, w_advance: 0, w_kill: 0, max_phrases: 10, w_burst: 0, w_flood: 2 };
pub const P_C04_SAT: Profile = Profile { max_workers: 4, limits: &[1, 2, 3], uds: false, two_listeners: true, w_connect: 6, w_race: 0, w_ctl: 1, w_stop: 0, w_inject: 0, w_advance: 0, w_kill: 0, max_phrases: 10, w_burst: 0, w_flood: 0 };
pub const P_C04_UNSAT: Profile = Profile { max_workers: 4, limits: &[64], uds: false, two_listeners: true, w_connect: 6, w_race: 1, w_ctl: 1, w_stop: 0, w_inject: 0, w_advance: 0, w_kill: 0, max_phrases: 10, w_burst: 0, w_flood: 0 };
pub const P_C05: Profile = Profile { max_workers: 2, limits: &[64, 64, 1, 2, 1000], uds: true, two_listeners: true, w_connect: 4, w_race: 0, w_ctl: 3, w_stop: 1, w_inject: 3, w_advance: 3, w_kill: 0, max_phrases: 9, w_burst: 1, w_flood: 2 };
pub const P_C06: Profile = Profile { max_workers: 2, limits: &[64, 2], uds: true, two_listeners: true, w_connect: 4, w_race: 0, w_ctl: 2, w_stop: 3, w_inject: 0, w_advance: 0, w_kill: 0, max_phrases: 8, w_burst: 3, w_flood: 0 };
pub const P_C04_FAULT: Profile = Profile { max_workers: 4, limits: &[1, 2], uds: false, two_listeners: false, w_connect: 6, w_race: 0, w_ctl: 0, w_stop: 0, w_inject: 0, w_advance: 0, w_kill: 3, max_phrases: 10, w_burst: 0, w_flood: 0 };
pub const P_C04_FAULT_UNSAT: Profile = Profile { max_workers: 4, limits: &[64], uds: false, two_listeners: false, w_connect: 8, w_race: 0, w_ctl: 0, w_stop: 0, w_inject: 0, w_advance: 0, w_kill: 3, max_phrases: 10, w_burst: 0, w_flood: 0 };
pub const P_C03_FAULT: Profile = Profile { max_workers: 3, limits: &[1, 1, 2, 3], uds: false, two_listeners: false, w_connect: 5, w_race: 1, w_ctl: 1, w_stop: 0, w_inject: 0, w_advance: 0, w_kill: 3, max_phrases: 10, w_burst: 0, w_flood: 0 };
pub const P_C08: Profile = Profile { max_workers: 3, limits: &[1, 2, 3], uds: false, two_listeners: false, w_connect: 5, w_race: 1, w_ctl: 1, w_stop: 0, w_inject: 0, w_advance: 0, w_kill: 4, max_phrases: 9, w_burst: 0, w_flood: 0 };

pub fn nontrivial(prop: Prop, c: &Case, labels: &[&'static str]) -> bool {
    let has = |l: &str| labels.contains(&l);
    match prop {
        Prop::C01 => (c.listeners.len() >= 2 || c.workers >= 2) && has("conns>=3") && (has("pause") || has("kill-idle") || has("kill-partial") || has("kill-saturated") || has("stop") || has("saturated")),
        Prop::C02 => has("limit-constrained") || (has("saturated") && has("race-done")),
        Prop::C03 => has("finish-while-saturated-with-backlog"),
        Prop::C04 => c.workers >= 2 && has("dispatches>W"),
        Prop::C05 => has("pause") || has("inject-fatal") || has("inject-per-connection"),
        Prop::C06 => has("stop"),
        Prop::C08 => has("fault-discovered"),
    }
}

pub fn check(prop: Prop, c: &Case) -> CaseResult {
    let mut obs = run_case(c, prop)?;
    obs.nontrivial = nontrivial(prop, c, &obs.labels);
    Ok(obs)
}

pub const RULE_L2: &str = "L2: schedules (lists of ops over connect / connect-with-finish-before-count race / single accept-loop step / run to quiescence / worker pick-up / finish / pause / resume / stop / inject accept error of 6 kinds / advance virtual clock / kill worker / replace worker) generated by proptest from single ops and short idioms, executed against the real stepped Accept with real kernel listeners (TCP loopback, UDS path) and harness-owned worker ends; oracles on harness ground truth after every op, at every quiescent state and after a final drain; distinct by (workers, limit, listeners, ops)";

pub fn run_l2_part(ctx: &Ctx, name: &str, prop: Prop, profile: Profile, cases: u64, floors: &[(&str, f64)], nt_rule: &str) {
    let rule = format!("{RULE_L2}; non-trivial = {nt_rule}");
    let deep = ctx.tier == vcore::Tier::Thorough;
    ctx.run_random(Part::new(name, &rule, cases).floors(floors).shrink_iters(4000), move || strategy(profile, deep), |c| check(prop, c));
}
