//! Scripted transport for the Framed checks (C13 read side, C14 write side) and the test codecs.

use std::{
    io,
    pin::Pin,
    task::{Context, Poll, Waker},
};

use actix_codec::{AsyncRead, AsyncWrite, Decoder, Encoder, ReadBuf};
use bytes::{Buf, BufMut, BytesMut};
use serde::{Deserialize, Serialize};

pub const KINDS: [io::ErrorKind; 6] = [
    io::ErrorKind::ConnectionReset,
    io::ErrorKind::BrokenPipe,
    io::ErrorKind::UnexpectedEof,
    io::ErrorKind::Interrupted,
    io::ErrorKind::TimedOut,
    io::ErrorKind::Other,
];

pub fn kind_name(k: io::ErrorKind) -> String {
    format!("{:?}", k)
}

#[derive(Clone, Copy, Debug, Serialize, Deserialize, PartialEq)]
pub enum RStep {
    /// deliver up to n bytes (>= 1)
    Chunk(u16),
    Pending,
}

#[derive(Clone, Copy, Debug, Serialize, Deserialize, PartialEq)]
pub enum WStep {
    /// accept up to k bytes of what is offered (k >= 1)
    Accept(u16),
    Pending,
    /// return Ok(0)
    Zero,
    Err(u8),
}

#[derive(Clone, Copy, Debug, Serialize, Deserialize, PartialEq)]
pub enum FStep {
    Ready,
    Pending,
    Err(u8),
}

/// What the transport did during one call into the code under test.
#[derive(Clone, Debug, PartialEq)]
pub enum Ev {
    ReadData(usize),
    ReadEof,
    ReadPending,
    ReadErr(io::ErrorKind),
    Wrote(usize),
    WritePending,
    WriteZero,
    WriteErr(io::ErrorKind),
    Flushed,
    FlushPending,
    FlushErr(io::ErrorKind),
    Shutdown,
    ShutdownPending,
    ShutdownErr(io::ErrorKind),
}

#[derive(Default)]
pub struct MockIo {
    // read side
    pub stream: Vec<u8>,
    pub delivered: usize,
    pub rscript: std::collections::VecDeque<RStep>,
    /// raise this error (once) when `delivered` reaches the offset
    pub err_at: Option<(usize, io::ErrorKind)>,
    pub err_raised: bool,
    /// how the transport fills the caller's ReadBuf: 0 = `put_slice` (touches only what it fills),
    /// 1 = the adapter idiom `initialize_unfilled()`, copy, `advance(n)` (initialises the whole
    /// spare capacity, also on the end-of-stream read), 2 = `initialize_unfilled_to(n + 7)`
    pub read_style: u8,
    /// reads answered with "end of stream" so far
    pub eof_reads: u32,
    /// bytes delivered per read once `rscript` is used up (0 = everything that is left)
    pub default_chunk: u16,
    // write side
    pub wire: Vec<u8>,
    pub wscript: std::collections::VecDeque<WStep>,
    pub fscript: std::collections::VecDeque<FStep>,
    pub sscript: std::collections::VecDeque<FStep>,
    pub flushed_after_last_write: bool,
    pub shutdown_done: bool,
    /// bytes accepted per write once `wscript` is exhausted (0 = everything offered)
    pub default_accept: u16,
    // per-call observation
    pub events: Vec<Ev>,
    pub last_waker: Option<Waker>,
}

impl MockIo {
    pub fn take_events(&mut self) -> Vec<Ev> {
        std::mem::take(&mut self.events)
    }
}

impl AsyncRead for MockIo {
    fn poll_read(mut self: Pin<&mut Self>, cx: &mut Context<'_>, buf: &mut ReadBuf<'_>) -> Poll<io::Result<()>> {
        let this = &mut *self;
        if let Some((at, kind)) = this.err_at {
            if !this.err_raised && this.delivered == at {
                this.err_raised = true;
                this.events.push(Ev::ReadErr(kind));
                return Poll::Ready(Err(io::Error::new(kind, "injected read error")));
            }
        }
        // a reader whose buffer grows without bound (it believes it received more than it did)
        // offers ever larger buffers: stop it before the process runs out of memory
        if buf.remaining() > (4 << 20) + 8 * this.stream.len() {
            panic!("verif: the reader offers a buffer of {} bytes for a stream of {} bytes: its read buffer grows without bound", buf.remaining(), this.stream.len());
        }
        let step = this.rscript.pop_front().unwrap_or(RStep::Chunk(if this.default_chunk == 0 { u16::MAX } else { this.default_chunk }));
        match step {
            RStep::Pending => {
                this.last_waker = Some(cx.waker().clone());
                this.events.push(Ev::ReadPending);
                Poll::Pending
            }
            RStep::Chunk(n) => {
                let mut n = (n.max(1) as usize).min(this.stream.len() - this.delivered).min(buf.remaining());
                if let Some((at, _)) = this.err_at {
                    if !this.err_raised && at > this.delivered {
                        n = n.min(at - this.delivered);
                    }
                }
                let data = &this.stream[this.delivered..this.delivered + n];
                match this.read_style {
                    1 => {
                        let dst = buf.initialize_unfilled();
                        dst[..n].copy_from_slice(data);
                        buf.advance(n);
                    }
                    2 => {
                        let k = (n + 7).min(buf.remaining());
                        let dst = buf.initialize_unfilled_to(k);
                        dst[..n].copy_from_slice(data);
                        buf.advance(n);
                    }
                    _ => buf.put_slice(data),
                }
                this.delivered += n;
                if n == 0 && this.delivered == this.stream.len() {
                    this.eof_reads += 1;
                    // a reader that does not take "0 bytes" for the end keeps reading (and, if it
                    // believes it got data, keeps growing its buffer) inside one call: stop it here
                    if this.eof_reads > 24 {
                        panic!("verif: the transport was read {} times after it had reported the end of the stream: the reader does not stop at a zero-length read", this.eof_reads);
                    }
                    this.events.push(Ev::ReadEof);
                } else {
                    this.events.push(Ev::ReadData(n));
                }
                Poll::Ready(Ok(()))
            }
        }
    }
}

impl AsyncWrite for MockIo {
    fn poll_write(mut self: Pin<&mut Self>, cx: &mut Context<'_>, buf: &[u8]) -> Poll<io::Result<usize>> {
        let this = &mut *self;
        let step = this.wscript.pop_front().unwrap_or(WStep::Accept(if this.default_accept == 0 { u16::MAX } else { this.default_accept }));
        match step {
            WStep::Pending => {
                this.last_waker = Some(cx.waker().clone());
                this.events.push(Ev::WritePending);
                Poll::Pending
            }
            WStep::Zero => {
                this.events.push(Ev::WriteZero);
                Poll::Ready(Ok(0))
            }
            WStep::Err(k) => {
                let kind = KINDS[k as usize % KINDS.len()];
                this.events.push(Ev::WriteErr(kind));
                Poll::Ready(Err(io::Error::new(kind, "injected write error")))
            }
            WStep::Accept(k) => {
                let n = (k.max(1) as usize).min(buf.len());
                this.wire.extend_from_slice(&buf[..n]);
                this.flushed_after_last_write = false;
                this.events.push(Ev::Wrote(n));
                Poll::Ready(Ok(n))
            }
        }
    }

    fn poll_flush(mut self: Pin<&mut Self>, cx: &mut Context<'_>) -> Poll<io::Result<()>> {
        let this = &mut *self;
        match this.fscript.pop_front().unwrap_or(FStep::Ready) {
            FStep::Ready => {
                this.flushed_after_last_write = true;
                this.events.push(Ev::Flushed);
                Poll::Ready(Ok(()))
            }
            FStep::Pending => {
                this.last_waker = Some(cx.waker().clone());
                this.events.push(Ev::FlushPending);
                Poll::Pending
            }
            FStep::Err(k) => {
                let kind = KINDS[k as usize % KINDS.len()];
                this.events.push(Ev::FlushErr(kind));
                Poll::Ready(Err(io::Error::new(kind, "injected flush error")))
            }
        }
    }

    fn poll_shutdown(mut self: Pin<&mut Self>, cx: &mut Context<'_>) -> Poll<io::Result<()>> {
        let this = &mut *self;
        match this.sscript.pop_front().unwrap_or(FStep::Ready) {
            FStep::Ready => {
                this.shutdown_done = true;
                this.events.push(Ev::Shutdown);
                Poll::Ready(Ok(()))
            }
            FStep::Pending => {
                this.last_waker = Some(cx.waker().clone());
                this.events.push(Ev::ShutdownPending);
                Poll::Pending
            }
            FStep::Err(k) => {
                let kind = KINDS[k as usize % KINDS.len()];
                this.events.push(Ev::ShutdownErr(kind));
                Poll::Ready(Err(io::Error::new(kind, "injected shutdown error")))
            }
        }
    }
}

// ---- test codecs -------------------------------------------------------------------------------

/// `[len: u8][payload]`, default `decode_eof` (trailing partial frame => error at end of stream)
#[derive(Clone, Debug, Default)]
pub struct LenU8;

impl Decoder for LenU8 {
    type Item = Vec<u8>;
    type Error = io::Error;
    fn decode(&mut self, src: &mut BytesMut) -> Result<Option<Vec<u8>>, io::Error> {
        if src.is_empty() {
            return Ok(None);
        }
        let len = src[0] as usize;
        if src.len() < 1 + len {
            return Ok(None);
        }
        src.advance(1);
        Ok(Some(src.split_to(len).to_vec()))
    }
}

#[derive(Clone, Debug, PartialEq)]
pub enum TFrame {
    Data(Vec<u8>),
    /// bytes left over at end of stream
    Tail(Vec<u8>),
    /// emitted exactly once by decode_eof
    End,
}

/// `[len: u16 BE][payload]`; frames whose length field has the top bit set are a decode error (the
/// length field is consumed); custom stateful `decode_eof`: leftover bytes as a `Tail` frame, then
/// `End` exactly once.
#[derive(Clone, Debug, Default)]
pub struct LenU16 {
    ended: bool,
}

impl Decoder for LenU16 {
    type Item = TFrame;
    type Error = io::Error;
    fn decode(&mut self, src: &mut BytesMut) -> Result<Option<TFrame>, io::Error> {
        if src.len() < 2 {
            return Ok(None);
        }
        let len = u16::from_be_bytes([src[0], src[1]]) as usize;
        if len & 0x8000 != 0 {
            src.advance(2);
            return Err(io::Error::new(io::ErrorKind::InvalidData, "length field out of range"));
        }
        if src.len() < 2 + len {
            src.reserve(2 + len - src.len());
            return Ok(None);
        }
        src.advance(2);
        Ok(Some(TFrame::Data(src.split_to(len).to_vec())))
    }
    fn decode_eof(&mut self, src: &mut BytesMut) -> Result<Option<TFrame>, io::Error> {
        if let Some(f) = self.decode(src)? {
            return Ok(Some(f));
        }
        if !src.is_empty() {
            return Ok(Some(TFrame::Tail(src.split().to_vec())));
        }
        if !self.ended {
            self.ended = true;
            return Ok(Some(TFrame::End));
        }
        Ok(None)
    }
}

impl Encoder<Vec<u8>> for LenU8 {
    type Error = io::Error;
    fn encode(&mut self, item: Vec<u8>, dst: &mut BytesMut) -> Result<(), io::Error> {
        dst.put_u8(item.len() as u8);
        dst.put_slice(&item[..item.len().min(255)]);
        Ok(())
    }
}

/// items of exactly this size are rejected by the `LenU16` encoder (an encoder may refuse an item)
pub const REJECTED_LEN: usize = 4242;

impl Encoder<Vec<u8>> for LenU16 {
    type Error = io::Error;
    fn encode(&mut self, item: Vec<u8>, dst: &mut BytesMut) -> Result<(), io::Error> {
        if item.len() == REJECTED_LEN {
            return Err(io::Error::new(io::ErrorKind::InvalidInput, "item refused by the encoder"));
        }
        dst.reserve(2 + item.len());
        dst.put_u16(item.len() as u16);
        dst.put_slice(&item);
        Ok(())
    }
}
