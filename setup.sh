#!/bin/sh
# setup_cmd: offline pre-build of the harness and the fuzz targets from files on disk only.
set -e
cd /verif/harness
export CARGO_NET_OFFLINE=true
export RUSTFLAGS="${RUSTFLAGS:+$RUSTFLAGS }--cfg actix_net_verif"
cargo build --release --offline -p vcheck
# second build (no debug assertions, no overflow checks) used by the in-process checks C11-C17, C20
cargo build --profile nodebug --offline -p vcheck
# coverage-guided targets (cargo-fuzz, nightly, ASan); used by the thorough tier only
cd /verif/fuzzproj
env -u RUSTFLAGS cargo +nightly fuzz build || echo "warning: fuzz targets did not build; thorough tiers will report inconclusive" >&2
