#!/bin/bash
# tools/lanes.sh setup|run|clean [N] : regression over the archive of seeded changes in N parallel
# lanes. Each lane has its own scratch worktree of /repo and its own copy of the harness (path
# dependencies rewritten to that worktree, own target directory) under /tmp/lane<k>, so that /repo
# and /verif/harness stay untouched. Scratch only: `clean` removes everything again.
# LANES_PAT=<regex> restricts the run to matching directories.
# Results: /tmp/lanes/<k>.log, one line per change (CAUGHT / MISSED <rc>).
N=${2:-4}
case "$1" in
setup)
  mkdir -p /tmp/lanes
  for k in $(seq 1 $N); do
    L=/tmp/lane$k
    rm -rf $L; mkdir -p $L
    git -C /repo worktree add --detach $L/repo HEAD >/dev/null 2>&1 || exit 2
    rsync -a --exclude target --exclude target-nohooks /verif/harness/ $L/harness/
    sed -i "s#\"/repo/#\"$L/repo/#" $L/harness/Cargo.toml $L/harness/*/Cargo.toml
    (cd $L/harness && CARGO_NET_OFFLINE=true RUSTFLAGS="--cfg actix_net_verif" cargo build --release --offline -p vcheck >/dev/null 2>&1 && CARGO_NET_OFFLINE=true RUSTFLAGS="--cfg actix_net_verif" cargo build --profile nodebug --offline -p vcheck >/dev/null 2>&1; echo "lane $k built rc=$?") &
  done
  wait
  ;;
lane)
  # tools/lanes.sh lane <N> <k> : internal
  # optional 4th argument: take the share of lane <share> in reverse order (a helper lane that
  # works towards a slow lane from the other end)
  k=$3; L=/tmp/lane$k; share=${4:-$k}; rev=cat; [ -n "$4" ] && rev=tac
  ls -d /verif/seeded/*/ | grep -E "${LANES_PAT:-.}" | sort | awk -v n=$N -v k=$share 'NR % n == k % n' | $rev | while read d; do
    d=${d%/}
    id=$(basename $d | sed 's/^own-//; s/-.*//')
    cd $L/repo && git checkout -q -- . && git apply $d/patch.diff 2>/dev/null || { echo "$(date +%H:%M:%S) NOAPPLY $d"; cd $L/repo && git checkout -q -- .; continue; }
    cd $L/harness
    export CARGO_NET_OFFLINE=true
    rc=2
    if RUSTFLAGS="--cfg actix_net_verif" cargo build --release --offline -p vcheck >/dev/null 2>&1; then
      case "$id" in C11|C12|C13|C14|C15|C16|C17|C20) RUSTFLAGS="--cfg actix_net_verif" cargo build --profile nodebug --offline -p vcheck >/dev/null 2>&1;; esac
      (cd /verif && timeout 2400 $L/harness/target/release/vcheck $id quick >/dev/null 2>&1); rc=$?
    elif RUSTFLAGS="--cfg verif_nohooks" cargo build --release --offline -p vcheck --target-dir $L/harness/target-nohooks >/dev/null 2>&1; then
      (cd /verif && VERIF_NOHOOKS=1 timeout 2400 $L/harness/target-nohooks/release/vcheck $id quick >/dev/null 2>&1); rc=$?
      [ $rc -eq 0 ] && rc=2
    fi
    cd $L/repo && git checkout -q -- .
    if [ $rc -eq 1 ]; then echo "$(date +%H:%M:%S) CAUGHT $d"; else echo "$(date +%H:%M:%S) MISSED $d rc=$rc"; fi
  done
  echo "lane $k finished"
  ;;
run)
  for k in $(seq 1 $N); do
    nohup $0 lane $N $k > /tmp/lanes/$k.log 2>&1 &
  done
  ;;
clean)
  for k in $(seq 1 $N); do
    git -C /repo worktree remove --force /tmp/lane$k/repo 2>/dev/null
    rm -rf /tmp/lane$k
  done
  git -C /repo worktree prune
  ;;
esac
