//! C11 / C12 — service combinators: one engine, two oracles.
//!
//! * Functional mode (C11): a busy-polling executor; result and exact sequential event log of every
//!   request are compared with the reference interpreter; factories: every item created exactly once
//!   with the right config, first init error in time wins, produced service obeys the service oracle.
//! * Contract mode (C12): an executor that re-polls only after the most recent (fresh) waker fired;
//!   readiness = conjunction over the leaves with error reporting; every pending leaf polled with the
//!   current waker; no inner future polled after completion; Pending only while something is pending;
//!   no later stage invoked twice.

pub mod tree;
pub mod world;

use std::{
    future::Future,
    panic::{catch_unwind, AssertUnwindSafe},
    task::{Context, Poll},
};

use actix_service::{Service, ServiceFactory};
use proptest::prelude::*;
use serde::{Deserialize, Serialize};
use serde_json::Value;
use vcore::{vensure, vfail, CaseResult, Ctx, Fail, Obs, Part};

use tree::*;
use world::*;

#[derive(Clone, Copy, Debug, PartialEq)]
pub enum Mode {
    Functional,
    Contract,
}

#[derive(Clone, Debug, Serialize, Deserialize, PartialEq)]
pub struct SvcCase {
    pub tree: T,
    pub leaves: Vec<LeafScript>,
    pub reqs: Vec<u32>,
}

#[derive(Clone, Debug, Serialize, Deserialize, PartialEq)]
pub struct FacCase {
    pub tree: F,
    pub leaves: Vec<LeafScript>,
    pub cfg: u32,
    pub reqs: Vec<u32>,
    /// the factory value is dropped right after the last `new_service` call, before the returned
    /// future is driven (a factory used as a temporary)
    #[serde(default)]
    pub drop_factory_early: bool,
}

const MAX_ROUNDS: u32 = 64;

struct Stats {
    saw_pending_ready: bool,
    saw_pending_fut: bool,
    saw_err: bool,
    saw_ready_err: bool,
}

fn map_chain(mut e: u32, chain: &[(usize, Aff)]) -> u32 {
    for (_, f) in chain {
        e = f.ap(e);
    }
    e
}

fn contract_flush(w: &W, sig: &'static str) -> Result<(), Fail> {
    let c = w.contract.borrow();
    if let Some(m) = c.first() {
        return Err(Fail::new(sig, m.clone()));
    }
    Ok(())
}

/// Drive readiness of `svc` for request `n`. Ok(true) = ready, Ok(false) = readiness error (case ends).
fn drive_ready(mode: Mode, w: &W, svc: &H, expr: &T, n: usize, st: &mut Stats) -> Result<bool, Fail> {
    w.load_readiness(n);
    let deps = ready_deps(expr);
    let mut woken = true;
    for _ in 0..MAX_ROUNDS {
        if mode == Mode::Contract && !woken {
            vfail!("C12/ready-lost-wakeup", "request {}: poll_ready returned Pending and no wake-up followed although an inner service changed state (executor has nothing to poll)", n);
        }
        let waker = w.begin_round();
        let mut cx = Context::from_waker(&waker);
        let states: Vec<(usize, RState)> = deps.iter().map(|(l, _)| (*l, w.leaves.borrow()[*l].ready)).collect();
        let r = svc.poll_ready(&mut cx);
        let errs: Vec<u32> = deps
            .iter()
            .filter_map(|(l, chain)| match w.leaves.borrow()[*l].ready {
                RState::Err(e) => Some(map_chain(e, chain)),
                _ => None,
            })
            .collect();
        let pending: Vec<usize> = states.iter().filter(|(_, s)| matches!(s, RState::Pending(_))).map(|(l, _)| *l).collect();
        if mode == Mode::Contract {
            match &r {
                Poll::Ready(Ok(())) => {
                    vensure!(errs.is_empty() && pending.is_empty(), "C12/ready-too-early",
                        "request {}: combined poll_ready returned Ready(Ok) while inner leaves are {:?}", n, states);
                }
                Poll::Ready(Err(e)) => {
                    vensure!(errs.contains(e), "C12/ready-wrong-error",
                        "request {}: combined poll_ready returned Err({}) but the erroring leaves' mapped errors are {:?} (states {:?})", n, e, errs, states);
                }
                Poll::Pending => {
                    vensure!(errs.is_empty(), "C12/ready-error-not-reported",
                        "request {}: combined poll_ready returned Pending although an inner service reports a readiness error (states {:?}): the error is reported instead of waiting for the others", n, states);
                    vensure!(!pending.is_empty(), "C12/ready-spurious-pending",
                        "request {}: combined poll_ready returned Pending although no inner leaf is pending (states {:?})", n, states);
                    for l in &pending {
                        let ls = w.leaves.borrow();
                        vensure!(ls[*l].polled_round == Some(w.round.get()) && ls[*l].waker_ok, "C12/ready-pending-not-polled",
                            "request {}: combined poll_ready returned Pending but pending leaf {} was not polled with the current waker in this call (states {:?})", n, l, states);
                    }
                }
            }
        } else {
            // functional view of readiness: never Ready(Ok) unless everything is ready
            if let Poll::Ready(Ok(())) = &r {
                vensure!(errs.is_empty() && pending.is_empty(), "C11/ready-too-early", "request {}: poll_ready Ready(Ok) with inner states {:?}", n, states);
            }
            if r.is_pending() {
                vensure!(errs.is_empty(), "C11/ready-error-not-reported",
                    "request {}: the composition's poll_ready is Pending although a stage reports a readiness error (states {:?}); the reference composition fails with that error now", n, states);
            }
        }
        match r {
            Poll::Ready(Ok(())) => return Ok(true),
            Poll::Ready(Err(_)) => {
                st.saw_ready_err = true;
                return Ok(false);
            }
            Poll::Pending => {
                st.saw_pending_ready = true;
                let moved = w.advance();
                woken = w.cur_woken();
                if moved == 0 && mode == Mode::Functional {
                    vfail!("C11/ready-stuck", "request {}: poll_ready stays Pending although every inner leaf is ready", n);
                }
                if moved == 0 {
                    // nothing can change any more: Pending was judged above (spurious) - unreachable
                    vfail!("C12/ready-spurious-pending", "request {}: poll_ready Pending with nothing pending", n);
                }
            }
        }
    }
    vfail!(if mode == Mode::Contract { "C12/ready-never" } else { "C11/ready-never" }, "request {}: poll_ready did not resolve within {} rounds", n, MAX_ROUNDS)
}

/// Drive one future to completion under the mode's executor discipline.
fn drive_fut<Tv>(mode: Mode, w: &W, fut: &mut BF<Tv>, what: &str, st: &mut Stats) -> Result<Tv, Fail> {
    drive_fut2(mode, w, fut, what, st, true)
}

/// `readiness_wait_ok`: a factory future may wait for the readiness of the service it has built
/// (apply_cfg_factory); a call future has no business waiting for anybody's readiness
fn drive_fut2<Tv>(mode: Mode, w: &W, fut: &mut BF<Tv>, what: &str, st: &mut Stats, readiness_wait_ok: bool) -> Result<Tv, Fail> {
    let mut woken = true;
    for _ in 0..MAX_ROUNDS {
        if mode == Mode::Contract && !woken {
            vfail!("C12/lost-wakeup", "{}: the future returned Pending and was not woken when its pending inner future made progress", what);
        }
        let waker = w.begin_round();
        let mut cx = Context::from_waker(&waker);
        let r = fut.as_mut().poll(&mut cx);
        if mode == Mode::Contract {
            contract_flush(w, "C12/poll-after-completion")?;
        }
        match r {
            Poll::Ready(v) => return Ok(v),
            Poll::Pending => {
                st.saw_pending_fut = true;
                let live = w.live_futs();
                // a pending readiness wait (apply_cfg_factory) also justifies Pending
                let ready_wait: Vec<usize> = if !readiness_wait_ok { vec![] } else { w.leaves.borrow().iter().enumerate()
                    .filter(|(_, l)| matches!(l.ready, RState::Pending(_)) && l.polled_round == Some(w.round.get()))
                    .map(|(i, _)| i).collect() };
                if mode == Mode::Contract {
                    vensure!(!live.is_empty() || !ready_wait.is_empty(), "C12/spurious-pending",
                        "{}: returned Pending although no inner future is pending (every created inner future has completed)", what);
                    for ix in &live {
                        let futs = w.futs.borrow();
                        let f = &futs[*ix];
                        vensure!(f.polled_round == Some(w.round.get()) && f.waker_ok, "C12/pending-not-polled",
                            "{}: returned Pending but the pending inner future of item {} was not polled with the current waker in this call", what, f.leaf);
                    }
                    for l in &ready_wait {
                        vensure!(w.leaves.borrow()[*l].waker_ok, "C12/pending-not-polled", "{}: readiness of leaf {} polled with a stale waker", what, l);
                    }
                }
                let moved = w.advance();
                woken = w.cur_woken();
                if moved == 0 {
                    if mode == Mode::Functional {
                        // busy polling: a future that stays Pending with nothing pending inside may
                        // still resolve on a later poll (that is C12's business), give it the rounds
                        continue;
                    }
                    vfail!("C12/spurious-pending", "{}: Pending with nothing pending inside", what);
                }
            }
        }
    }
    vfail!(if mode == Mode::Contract { "C12/never-completes" } else { "C11/never-completes" }, "{}: did not complete within {} rounds", what, MAX_ROUNDS)
}

/// the leaf whose `call` the reference composition makes inside the combined service's `call`
/// itself (`let fa = a.call(req); async move { b.call(fa.await?).await }`: the first stage is
/// started at call time, so requests reach it in the order of the calls, whatever the order in
/// which the response futures are polled or dropped). `None` where a closure of the harness decides.
fn sync_leaf(t: &T) -> Option<usize> {
    match t {
        T::Leaf { id } => Some(*id),
        T::FnLeaf { .. } | T::ApplyFn { .. } => None,
        T::AndThen(a, _) => sync_leaf(a),
        T::Map { t, .. } | T::MapErr { t, .. } | T::Pre { t, .. } => sync_leaf(t),
        T::BoxService(t) | T::RcService(t) | T::Rc(t) | T::Boxed(t) | T::RefCell(t) | T::Ref(t) | T::Split(t) | T::RefMut(t) => sync_leaf(t),
    }
}

/// the leaf factories whose `new_service` the reference composition calls inside the combined
/// factory's `new_service` itself
fn sync_fac_leaves(f: &F, out: &mut Vec<usize>) {
    match f {
        F::Leaf { id } => out.push(*id),
        F::AndThen(a, b) => {
            sync_fac_leaves(a, out);
            sync_fac_leaves(b, out);
        }
        F::Map { t, .. } | F::MapErr { t, .. } | F::MapInitErr { t, .. } | F::MapConfig { t, .. } | F::UnitConfig { t, .. } | F::ApplyFn { t, .. } | F::Transform { t, .. } => sync_fac_leaves(t, out),
        F::BoxFactory(t) | F::Rc(t) | F::Arc(t) => sync_fac_leaves(t, out),
        F::FnCfg { .. } | F::Fn { .. } | F::ApplyCfg { .. } | F::ApplyCfgFactory { .. } => {}
    }
}

/// Serve the requests on `svc`, judged against expression `expr`.
fn serve(mode: Mode, w: &W, svc: &H, expr: &T, reqs: &[u32], scripts: &[LeafScript], st: &mut Stats, ref_calls: &mut Vec<usize>) -> Result<(), Fail> {
    for (n, req) in reqs.iter().enumerate() {
        if !drive_ready(mode, w, svc, expr, n, st)? {
            return Ok(());
        }
        let log_start = w.log.borrow().len();
        let mut fut: BF<Result<u32, u32>> = svc.call(*req);
        if mode == Mode::Functional {
            if let Some(leaf) = sync_leaf(expr) {
                let started = w.log.borrow()[log_start..].iter().any(|e| matches!(e, Ev::Call { leaf: l, .. } if *l == leaf));
                vensure!(started, "C11/first-stage-deferred",
                    "request {} ({}): `call` returned without having called the first stage (leaf {}); the reference composition starts it inside `call`, so that requests reach it in call order even when the response futures are polled in another order or dropped unpolled", n, req, leaf);
            }
        }
        let got = drive_fut2(mode, w, &mut fut, &format!("call future of request {} ({})", n, req), st, false)?;
        drop(fut);
        let mut want_log = vec![];
        let want = eval(expr, *req, scripts, ref_calls, &mut want_log);
        let got_log: Vec<Ev> = w.log.borrow()[log_start..].to_vec();
        if got.is_err() {
            st.saw_err = true;
        }
        match mode {
            Mode::Functional => {
                vensure!(got == want, "C11/result", "request {} ({}): combined service returned {:?}, the reference composition yields {:?}", n, req, got, want);
                vensure!(got_log == want_log, "C11/event-log",
                    "request {} ({}): leaf calls / mapper applications differ from the reference composition:\n  got  {:?}\n  want {:?}", n, req, got_log, want_log);
            }
            Mode::Contract => {
                // never invoke a stage twice: per leaf and per mapper node no more events than the reference has
                for e in &got_log {
                    let g = got_log.iter().filter(|x| *x == e).count();
                    let wn = want_log.iter().filter(|x| *x == e).count();
                    vensure!(!(g >= 2 && g > wn), "C12/stage-invoked-twice",
                        "request {} ({}): event {:?} occurred {} times, the composition allows {}", n, req, e, g, wn);
                }
            }
        }
    }
    Ok(())
}

pub fn check_svc(mode: Mode, c: &SvcCase) -> CaseResult {
    match catch_unwind(AssertUnwindSafe(|| check_svc_inner(mode, c))) {
        Ok(r) => r,
        Err(p) => Err(Fail::new(if mode == Mode::Contract { "C12/panic" } else { "C11/panic" }, format!("combinator panicked: {}", vcore::panic_message(&*p)))),
    }
}

fn check_svc_inner(mode: Mode, c: &SvcCase) -> CaseResult {
    let mut tree = c.tree.clone();
    let mut ids = Ids { leaf: 0, node: 0 };
    assign_t(&mut tree, &mut ids);
    let w = World::new(c.leaves.clone(), ids.leaf);
    w.permits.set(mode == Mode::Functional);
    let svc = build_t(&tree, &w);
    let mut st = Stats { saw_pending_ready: false, saw_pending_fut: false, saw_err: false, saw_ready_err: false };
    let mut ref_calls = vec![];
    serve(mode, &w, &svc, &tree, &c.reqs, &c.leaves, &mut st, &mut ref_calls)?;
    let mut obs = Obs::new();
    let d = depth_t(&tree);
    let nl = count_leaves_t(&tree);
    match mode {
        Mode::Functional => obs.nontrivial = d >= 2 && has_and_then_t(&tree) && (st.saw_pending_fut || st.saw_err),
        Mode::Contract => obs.nontrivial = (nl >= 2 && st.saw_pending_ready) || st.saw_pending_fut,
    }
    obs.label_if(has_and_then_t(&tree), "and_then");
    obs.label_if(w.permit_used.get() == (true, true), "coupled-stages");
    obs.label_if(format!("{:?}", tree).contains("Split("), "split-clone");
    obs.label_if(w.lapsed.get(), "readiness-lapsed");
    obs.label_if(st.saw_pending_ready, "pending-readiness");
    obs.label_if(st.saw_pending_fut, "pending-future");
    obs.label_if(st.saw_err, "call-error");
    obs.label_if(st.saw_ready_err, "readiness-error");
    obs.label_if(d >= 3, "depth>=3");
    Ok(obs)
}

pub fn check_fac(mode: Mode, c: &FacCase) -> CaseResult {
    match catch_unwind(AssertUnwindSafe(|| check_fac_inner(mode, c))) {
        Ok(r) => r,
        Err(p) => Err(Fail::new(if mode == Mode::Contract { "C12/panic" } else { "C11/panic" }, format!("combinator panicked: {}", vcore::panic_message(&*p)))),
    }
}

fn check_fac_inner(mode: Mode, c: &FacCase) -> CaseResult {
    let mut tree = c.tree.clone();
    let mut ids = Ids { leaf: 0, node: 0 };
    assign_f(&mut tree, &mut ids);
    let w = World::new(c.leaves.clone(), ids.leaf);
    let mut fac = Some(build_f(&tree, &w));
    let mut st = Stats { saw_pending_ready: false, saw_pending_fut: false, saw_err: false, saw_ready_err: false };
    let mut obs = Obs::new();
    let mut ref_calls = vec![];
    let mut init_failed = false;
    let mut tie_checked = false;
    // a factory is used more than once (worker restarts): build two services
    for build in 0..2 {
        w.load_readiness(0);
        let log_start = w.log.borrow().len();
        let futs_start = w.futs.borrow().len();
        let start_round = w.round.get();
        // the second (last) build: the factory expression is a temporary that is gone while its
        // new_service future runs
        let mut fut: BF<Result<H, u32>> = if build == 1 && c.drop_factory_early {
            let f = fac.take().unwrap();
            let fut = f.new_service(c.cfg);
            drop(f);
            fut
        } else {
            fac.as_ref().unwrap().new_service(c.cfg)
        };
        if mode == Mode::Functional {
            let mut leaves = vec![];
            sync_fac_leaves(&tree, &mut leaves);
            // ... and in the order of the composition (first stage first)
            let order: Vec<usize> = w.log.borrow()[log_start..].iter().filter_map(|e| match e {
                Ev::NewService { leaf, .. } if leaves.contains(leaf) => Some(*leaf),
                _ => None,
            }).collect();
            let mut dedup = order.clone();
            dedup.dedup();
            if dedup.len() == leaves.len() && order.len() == leaves.len() {
                vensure!(order == leaves, "C11/init-order",
                    "build {}: `new_service` called the inner factories in the order {:?} (leaf ids); the composition starts them first stage first: {:?}", build, order, leaves);
            }
            for leaf in leaves {
                let started = w.log.borrow()[log_start..].iter().any(|e| matches!(e, Ev::NewService { leaf: l, .. } if *l == leaf));
                vensure!(started, "C11/init-deferred",
                    "build {}: `new_service` returned without having called the inner factory (leaf {}); the reference composition calls it inside `new_service`, so that configs reach it in call order whatever the order in which the init futures are polled", build, leaf);
            }
        }
        let res = drive_fut(mode, &w, &mut fut, &format!("new_service future (build {})", build), &mut st)?;
        drop(fut);
        let log: Vec<Ev> = w.log.borrow()[log_start..].to_vec();
        let mut items = vec![];
        init_items(&tree, c.cfg, &[], &mut items);
        // creation events
        let created = |it: &InitItem| -> Vec<&Ev> {
            log.iter()
                .filter(|e| match e {
                    Ev::NewService { leaf, .. } => *leaf == it.item && it.kind == "factory",
                    Ev::NewTransform { item } => *item == it.item && it.kind == "transform",
                    Ev::CfgFn { item, .. } => *item == it.item && it.kind == "cfgfn",
                    _ => false,
                })
                .collect()
        };
        for it in &items {
            let evs = created(it);
            vensure!(evs.len() <= 1, if mode == Mode::Contract { "C12/stage-invoked-twice" } else { "C11/init-twice" },
                "build {}: {} item {} was created {} times by one new_service call", build, it.kind, it.item, evs.len());
            if mode == Mode::Functional {
                if let Some(ev) = evs.first() {
                    match ev {
                        Ev::NewService { cfg, .. } | Ev::CfgFn { cfg, .. } => {
                            vensure!(Some(*cfg) == it.cfg, "C11/init-config", "build {}: {} item {} received config {} instead of {:?}", build, it.kind, it.item, cfg, it.cfg);
                        }
                        _ => {}
                    }
                    if let Ev::CfgFn { deps_ready, .. } = ev {
                        vensure!(*deps_ready, "C11/cfg-before-ready", "build {}: apply_cfg_factory configured the service before it reported ready", build);
                    }
                }
            } else if let Some(Ev::CfgFn { deps_ready, .. }) = evs.first() {
                // the readiness wait inside the factory future: an inner readiness error (or a
                // still pending inner service) must not be taken for ready
                let states: Vec<RState> = w.leaves.borrow().iter().map(|l| l.ready).collect();
                vensure!(*deps_ready, "C12/cfg-before-ready",
                    "build {}: apply_cfg_factory took the freshly built service for ready and configured it although an inner service had not reported ready (leaf readiness states {:?})", build, states);
            }
        }
        // failing candidates: (fail round, mapped error)
        let mut cands: Vec<(u32, u32, String)> = vec![];
        // (description, pipeline position) of failing factory leaves whose init future exists from the
        // new_service call on and is polled in every round: their failure round is exact
        let mut exact: Vec<(String, usize)> = vec![];
        {
            let futs = w.futs.borrow();
            for f in futs[futs_start..].iter().filter(|f| f.kind == FutKind::Init && f.fails) {
                if let Some((pos, it)) = items.iter().enumerate().find(|(_, i)| i.item == f.leaf) {
                    if it.kind == "factory" && f.created_round == start_round {
                        exact.push((format!("{} item {}", it.kind, it.item), pos));
                    }
                    let e = match w.script(f.leaf).init {
                        Some((_, InitOut::Err(e))) => e,
                        _ => continue,
                    };
                    let k = w.script(f.leaf).init.map(|x| x.0 as u32).unwrap_or(0);
                    cands.push((f.created_round.max(start_round + 1) + k, map_chain(e, &it.chain), format!("{} item {}", it.kind, it.item)));
                }
            }
        }
        // readiness errors seen by apply_cfg_factory
        collect_ready_errs(&tree, &w, &[], &mut cands);
        match res {
            Err(e) => {
                init_failed = true;
                if mode == Mode::Functional {
                    vensure!(!cands.is_empty(), "C11/init-spurious-error", "build {}: new_service failed with {} although no inner factory fails", build, e);
                    // readiness-derived errors (apply_cfg_factory) carry no comparable clock: always accepted
                    let first = cands.iter().filter(|c| !c.2.starts_with("readiness")).map(|c| c.0).min().unwrap_or(0);
                    let ok: Vec<u32> = cands.iter().filter(|c| c.0 == first || c.2.starts_with("readiness")).map(|c| c.1).collect();
                    vensure!(ok.contains(&e), "C11/init-error-not-first",
                        "build {}: new_service failed with {} but the first init error in time is one of {:?} (all failures: {:?})", build, e, ok, cands);
                    // a tie between factory leaves that fail in the very same poll goes to the
                    // earlier stage of the pipeline (the composition asks the stages in order)
                    let tied: Vec<&(u32, u32, String)> = cands.iter().filter(|c| c.0 == first && !c.2.starts_with("readiness")).collect();
                    if tied.len() >= 2 && !cands.iter().any(|c| c.2.starts_with("readiness")) && tied.iter().all(|c| exact.iter().any(|x| x.0 == c.2)) {
                        tie_checked = true;
                        let pos = |c: &&(u32, u32, String)| exact.iter().find(|x| x.0 == c.2).map(|x| x.1).unwrap_or(usize::MAX);
                        let winner = tied.iter().min_by_key(|c| pos(c)).unwrap();
                        vensure!(e == winner.1, "C11/init-error-not-first",
                            "build {}: several stages fail in the same poll {:?}; the composition asks its stages in order, so the error of the earliest one ({}) is the result, not {}", build, tied, winner.1, e);
                    }
                }
                break;
            }
            Ok(svc) => {
                if mode == Mode::Functional {
                    let real: Vec<&(u32, u32, String)> = cands.iter().filter(|c| !c.2.starts_with("readiness")).collect();
                    vensure!(real.is_empty(), "C11/init-error-swallowed", "build {}: new_service succeeded although {:?} failed", build, real);
                    for it in &items {
                        vensure!(created(it).len() == 1, "C11/init-missing", "build {}: {} item {} was never created although new_service succeeded", build, it.kind, it.item);
                    }
                }
                let expr = svc_of_cfg(&tree, c.cfg);
                serve(mode, &w, &svc, &expr, &c.reqs, &c.leaves, &mut st, &mut ref_calls)?;
            }
        }
    }
    let d = depth_f(&tree);
    match mode {
        Mode::Functional => obs.nontrivial = d >= 2 && is_chain_f(&tree) && (st.saw_pending_fut || st.saw_err || init_failed),
        Mode::Contract => obs.nontrivial = st.saw_pending_fut || st.saw_pending_ready,
    }
    obs.label_if(is_chain_f(&tree), "factory-chain");
    obs.label_if(c.drop_factory_early && fac.is_none(), "factory-dropped-during-init");
    obs.label_if(c.drop_factory_early && fac.is_none() && has_transform_f(&tree), "transform-factory-dropped-during-init");
    obs.label_if(init_failed, "init-error");
    obs.label_if(tie_checked, "init-error-tie");
    obs.label_if(st.saw_pending_fut, "pending-future");
    obs.label_if(st.saw_pending_ready, "pending-readiness");
    obs.label_if(d >= 3, "depth>=3");
    Ok(obs)
}

/// apply_cfg_factory converts a readiness error of the freshly built service into an init error
fn collect_ready_errs(f: &F, w: &W, chain: &[(usize, Aff)], out: &mut Vec<(u32, u32, String)>) {
    match f {
        F::Leaf { .. } | F::FnCfg { .. } | F::Fn { .. } | F::ApplyCfg { .. } => {}
        F::AndThen(a, b) => {
            collect_ready_errs(a, w, chain, out);
            collect_ready_errs(b, w, chain, out);
        }
        F::MapInitErr { id, f: g, t } => {
            let mut c = vec![(*id, *g)];
            c.extend_from_slice(chain);
            collect_ready_errs(t, w, &c, out);
        }
        F::Map { t, .. } | F::MapErr { t, .. } | F::MapConfig { t, .. } | F::UnitConfig { t, .. } | F::ApplyFn { t, .. } | F::Transform { t, .. } | F::BoxFactory(t) | F::Rc(t) | F::Arc(t) => {
            collect_ready_errs(t, w, chain, out)
        }
        F::ApplyCfgFactory { t, .. } => {
            collect_ready_errs(t, w, chain, out);
            for (l, schain) in ready_deps(&svc_of(t)) {
                let ls = w.leaves.borrow();
                if let (RState::Err(e), Some(r)) = (ls[l].ready, ls[l].polled_round) {
                    out.push((r, map_chain(map_chain(e, &schain), chain), format!("readiness of leaf {}", l)));
                }
            }
        }
    }
}

// ---- generators --------------------------------------------------------------------------------

fn aff() -> impl Strategy<Value = Aff> {
    (prop::sample::select(vec![1u32, 3, 5, 7]), 0u32..50).prop_map(|(a, b)| Aff { a, b })
}

fn mode_s() -> impl Strategy<Value = ApplyMode> {
    prop::sample::select(vec![ApplyMode::Pass, ApplyMode::PreMap, ApplyMode::ShortErr, ApplyMode::PostMap])
}

pub fn t_strategy() -> impl Strategy<Value = T> {
    let leaf = prop_oneof![5 => Just(T::Leaf { id: 0 }), 1 => Just(T::FnLeaf { id: 0 })];
    leaf.prop_recursive(3, 16, 2, |inner| {
        prop_oneof![
            5 => (inner.clone(), inner.clone()).prop_map(|(a, b)| T::AndThen(Box::new(a), Box::new(b))),
            2 => (inner.clone(), aff()).prop_map(|(t, f)| T::Map { id: 0, f, t: Box::new(t) }),
            2 => (inner.clone(), aff()).prop_map(|(t, f)| T::MapErr { id: 0, f, t: Box::new(t) }),
            2 => (inner.clone(), mode_s(), aff()).prop_map(|(t, mode, f)| T::ApplyFn { id: 0, mode, f, t: Box::new(t) }),
            1 => inner.clone().prop_map(|t| T::BoxService(Box::new(t))),
            1 => inner.clone().prop_map(|t| T::RcService(Box::new(t))),
            1 => inner.clone().prop_map(|t| T::Rc(Box::new(t))),
            1 => inner.clone().prop_map(|t| T::Boxed(Box::new(t))),
            1 => inner.clone().prop_map(|t| T::RefCell(Box::new(t))),
            1 => inner.clone().prop_map(|t| T::Ref(Box::new(t))),
            2 => inner.clone().prop_map(|t| T::Split(Box::new(t))),
            1 => inner.prop_map(|t| T::RefMut(Box::new(t))),
        ]
    })
}

pub fn f_strategy() -> impl Strategy<Value = F> {
    let leaf = prop_oneof![
        5 => Just(F::Leaf { id: 0 }),
        1 => Just(F::FnCfg { id: 0 }),
        1 => (0u32..9).prop_map(|c0| F::Fn { id: 0, c0 }),
        1 => t_strategy().prop_map(|s| F::ApplyCfg { item: 0, s: Box::new(s) }),
    ];
    leaf.prop_recursive(3, 16, 2, |inner| {
        prop_oneof![
            5 => (inner.clone(), inner.clone()).prop_map(|(a, b)| F::AndThen(Box::new(a), Box::new(b))),
            1 => (inner.clone(), aff()).prop_map(|(t, f)| F::Map { id: 0, f, t: Box::new(t) }),
            1 => (inner.clone(), aff()).prop_map(|(t, f)| F::MapErr { id: 0, f, t: Box::new(t) }),
            2 => (inner.clone(), aff()).prop_map(|(t, f)| F::MapInitErr { id: 0, f, t: Box::new(t) }),
            2 => (inner.clone(), aff()).prop_map(|(t, f)| F::MapConfig { id: 0, f, t: Box::new(t) }),
            1 => (inner.clone(), 0u32..9).prop_map(|(t, c0)| F::UnitConfig { c0, t: Box::new(t) }),
            2 => (inner.clone(), mode_s(), aff()).prop_map(|(t, mode, f)| F::ApplyFn { id: 0, mode, f, t: Box::new(t) }),
            3 => (inner.clone(), aff(), 0u8..3).prop_map(|(t, pre, wrap)| F::Transform { item: 0, pre, t: Box::new(t), wrap }),
            2 => (inner.clone(), 0u32..9).prop_map(|(t, c0)| F::ApplyCfgFactory { item: 0, c0, t: Box::new(t) }),
            1 => inner.clone().prop_map(|t| F::BoxFactory(Box::new(t))),
            1 => inner.clone().prop_map(|t| F::Rc(Box::new(t))),
            1 => inner.prop_map(|t| F::Arc(Box::new(t))),
        ]
    })
}

fn leaf_script() -> impl Strategy<Value = LeafScript> {
    let ready = prop::collection::vec((prop_oneof![3 => Just(0u8), 2 => 1u8..3], prop_oneof![9 => Just(RFinal::Ok), 1 => (100u32..120).prop_map(RFinal::Err)]), 0..4);
    let calls = prop::collection::vec(
        (prop_oneof![3 => Just(0u8), 2 => 1u8..3], prop_oneof![4 => aff().prop_map(Out::Ok), 1 => aff().prop_map(Out::Err)]),
        0..4,
    );
    let init = prop::option::weighted(0.7, (prop_oneof![2 => Just(0u8), 2 => 1u8..3], prop_oneof![5 => Just(InitOut::Ok), 1 => (200u32..220).prop_map(InitOut::Err)]));
    let lapse = prop::option::weighted(0.25, (0u8..2, 0u8..3, prop_oneof![4 => Just(RFinal::Ok), 1 => (100u32..120).prop_map(RFinal::Err)]));
    (ready, calls, init, prop_oneof![6 => Just(0u8), 2 => Just(1u8), 2 => Just(2u8)], lapse).prop_map(|(ready, calls, init, permit, lapse)| LeafScript { ready, calls, init, permit, lapse })
}

pub fn svc_strategy() -> impl Strategy<Value = SvcCase> {
    (t_strategy(), prop::collection::vec(leaf_script(), 0..9), prop::collection::vec(0u32..8, 1..4))
        .prop_map(|(tree, leaves, reqs)| SvcCase { tree, leaves, reqs })
}

pub fn fac_strategy() -> impl Strategy<Value = FacCase> {
    (f_strategy(), prop::collection::vec(leaf_script(), 0..12), 0u32..6, prop::collection::vec(0u32..8, 1..3), any::<bool>())
        .prop_map(|(tree, leaves, cfg, reqs, drop_factory_early)| FacCase { tree, leaves, cfg, reqs, drop_factory_early })
}

const RULE_11: &str = "random combinator expression trees (depth <= 3 recursion levels; and_then, map, map_err, apply_fn in 4 modes, boxed::service, rc_service, Rc, Box, RefCell, &, &mut wrappers, fn_service, and 'split' nodes that ask readiness through one clone of a combinator service and send requests through another; factory forms: and_then, map, map_err, map_init_err, map_config, unit_config, apply_fn_factory, apply(Transform | Rc<Transform> | Arc<Transform>), apply_cfg, apply_cfg_factory, boxed::factory, Rc, Arc, fn_factory, fn_factory_with_config) over scripted leaves (readiness: 0..2 rounds Pending then Ok/Err, optionally lapsing back to Pending or Err when nobody calls the leaf within 0..1 rounds of its being ready; call: 0..2 Pending then Ok(f(req))/Err(g(req)); init: 0..2 Pending then Ok/InitErr; call futures optionally coupled through one shared permit that a 'hold' future owns from creation to drop and a 'need' future cannot progress without; a transform's construction future fails if the transform object is dropped while it runs), 1-3 requests, each factory built twice, in half of the cases the factory value is dropped right after the last new_service call; result and exact sequential log of leaf calls and mapper applications compared with a reference interpreter; factories: each item created once with the mapped config, first init error in time (ties accepted), produced service judged by the service oracle; non-trivial = depth >= 2 with and_then / a factory chain and a Pending or Err leaf";
const RULE_12: &str = "same trees; leaves are state-based (Pending/Ready/Err changed between composite polls by the driver, waking stored wakers); executor with a fresh waker per poll that re-polls only after a wake-up; poll_ready: Ready(Ok) only if all leaves ready, Err must be a (mapped) leaf error, Pending only if a leaf is pending and every pending leaf was polled with the current waker; futures: no poll after completion, Pending only while an inner future (or readiness wait) is pending and polled with the current waker, wake-through, no stage invoked twice; non-trivial = >= 2 leaves with a pending readiness, or a pending inner future";

pub fn run_c11(ctx: &Ctx) {
    ctx.assume("leaf futures' progress is driven between polls by the harness; 'first init error in time' is judged on the round in which each inner init future turned to Err, ties accept either error");
    ctx.run_corpus::<SvcCase>("svc", |c| check_svc(Mode::Functional, c));
    ctx.run_corpus::<FacCase>("fac", |c| check_fac(Mode::Functional, c));
    ctx.run_random(
        Part::new("svc", RULE_11, ctx.tier.scale(300_000, 10)).floors(&[("and_then", 0.3), ("pending-future", 0.25), ("call-error", 0.15), ("depth>=3", 0.1), ("coupled-stages", 0.015)]),
        svc_strategy,
        |c| check_svc(Mode::Functional, c),
    );
    ctx.run_random(
        Part::new("fac", RULE_11, ctx.tier.scale(300_000, 10)).floors(&[("factory-chain", 0.4), ("pending-future", 0.3), ("init-error", 0.1), ("depth>=3", 0.1), ("transform-factory-dropped-during-init", 0.05)]),
        fac_strategy,
        |c| check_fac(Mode::Functional, c),
    );
}

pub fn run_c12(ctx: &Ctx) {
    ctx.assume("a lost wake-up is judged at quiescence of the harness executor: Pending returned, an inner state changed and woke the waker it had been given, and the most recent composite waker did not fire");
    ctx.run_corpus::<SvcCase>("svc", |c| check_svc(Mode::Contract, c));
    ctx.run_corpus::<FacCase>("fac", |c| check_fac(Mode::Contract, c));
    ctx.run_random(
        Part::new("svc", RULE_12, ctx.tier.scale(300_000, 10)).floors(&[("and_then", 0.3), ("pending-readiness", 0.2), ("pending-future", 0.3), ("readiness-error", 0.05)]),
        svc_strategy,
        |c| check_svc(Mode::Contract, c),
    );
    ctx.run_random(
        Part::new("fac", RULE_12, ctx.tier.scale(300_000, 10)).floors(&[("factory-chain", 0.4), ("pending-future", 0.3)]),
        fac_strategy,
        |c| check_fac(Mode::Contract, c),
    );
}

pub fn replay_c11(ctx: &Ctx, v: &Value) -> i32 {
    match v["part"].as_str().unwrap_or("") {
        p if p.starts_with("svc") => ctx.replay::<SvcCase>(v, |c| check_svc(Mode::Functional, c)),
        _ => ctx.replay::<FacCase>(v, |c| check_fac(Mode::Functional, c)),
    }
}

pub fn replay_c12(ctx: &Ctx, v: &Value) -> i32 {
    match v["part"].as_str().unwrap_or("") {
        p if p.starts_with("svc") => ctx.replay::<SvcCase>(v, |c| check_svc(Mode::Contract, c)),
        _ => ctx.replay::<FacCase>(v, |c| check_fac(Mode::Contract, c)),
    }
}

#[allow(unused)]
fn _assert_traits() {
    fn s<S: Service<u32>>(_: &S) {}
    fn f<SF: ServiceFactory<u32>>(_: &SF) {}
    let _ = (s::<H>, f::<HF>);
    let _: Option<&dyn Future<Output = ()>> = None;
}
