//! L1 checks: pure, single-threaded code under test driven by scripted mocks.
pub mod c13;
pub mod c14;
pub mod c15;
pub mod c16;
pub mod c17;
pub mod c20;
pub mod mockio;
pub mod svc;
