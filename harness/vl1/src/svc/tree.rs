//! Combinator expression trees: generation-friendly representation, id assignment, construction of
//! the real combinators, and the reference interpreter.

use std::{cell::RefCell, rc::Rc};

use actix_service::{
    apply, apply_cfg, apply_cfg_factory, apply_fn, apply_fn_factory, boxed, fn_factory, fn_factory_with_config, fn_service,
    map_config, unit_config, Service, ServiceExt, ServiceFactory, ServiceFactoryExt,
};
use serde::{Deserialize, Serialize};

use super::world::*;

#[derive(Clone, Copy, Debug, Serialize, Deserialize, PartialEq)]
pub enum ApplyMode {
    Pass,
    PreMap,
    /// odd requests are answered with Err(g(req)) without calling the inner service
    ShortErr,
    PostMap,
}

/// Service expression. `id` fields are assigned by `assign_ids` (leaf ids index the scripts).
#[derive(Clone, Debug, Serialize, Deserialize, PartialEq)]
pub enum T {
    Leaf { id: usize },
    /// `fn_service(closure)` around a leaf: always ready, call scripted
    FnLeaf { id: usize },
    AndThen(Box<T>, Box<T>),
    Map { id: usize, f: Aff, t: Box<T> },
    MapErr { id: usize, f: Aff, t: Box<T> },
    ApplyFn { id: usize, mode: ApplyMode, f: Aff, t: Box<T> },
    BoxService(Box<T>),
    RcService(Box<T>),
    Rc(Box<T>),
    Boxed(Box<T>),
    RefCell(Box<T>),
    Ref(Box<T>),
    /// only produced from factory trees: the harness pre-mapping service
    Pre { f: Aff, t: Box<T> },
    /// two clones of the service built from `t` (the combinator's own `Clone` where it has one):
    /// readiness is asked through one, requests are sent through the other
    Split(Box<T>),
    /// `&mut S`
    RefMut(Box<T>),
}

#[derive(Clone, Debug, Serialize, Deserialize, PartialEq)]
pub enum F {
    Leaf { id: usize },
    /// fn_factory_with_config(closure calling a leaf factory)
    FnCfg { id: usize },
    /// fn_factory(closure): ignores the config, inner leaf factory gets `c0`
    Fn { id: usize, c0: u32 },
    AndThen(Box<F>, Box<F>),
    Map { id: usize, f: Aff, t: Box<F> },
    MapErr { id: usize, f: Aff, t: Box<F> },
    MapInitErr { id: usize, f: Aff, t: Box<F> },
    MapConfig { id: usize, f: Aff, t: Box<F> },
    UnitConfig { c0: u32, t: Box<F> },
    ApplyFn { id: usize, mode: ApplyMode, f: Aff, t: Box<F> },
    /// apply(transform, factory); `item` is the transform's script id; `wrap`: the transform is
    /// passed as is (0), as Rc<T> (1) or as Arc<T> (2)
    Transform { item: usize, pre: Aff, t: Box<F>, #[serde(default)] wrap: u8 },
    /// apply_cfg(service, f): f(cfg, &srv) -> future of PreSvc{srv, x -> x + cfg}
    ApplyCfg { item: usize, s: Box<T> },
    /// apply_cfg_factory(FixCfg(factory, c0), f)
    ApplyCfgFactory { item: usize, c0: u32, t: Box<F> },
    BoxFactory(Box<F>),
    Rc(Box<F>),
    Arc(Box<F>),
}

pub struct Ids {
    pub leaf: usize,
    pub node: usize,
}

pub fn assign_t(t: &mut T, ids: &mut Ids) {
    match t {
        T::Leaf { id } | T::FnLeaf { id } => {
            *id = ids.leaf;
            ids.leaf += 1;
        }
        T::AndThen(a, b) => {
            assign_t(a, ids);
            assign_t(b, ids);
        }
        T::Map { id, t, .. } | T::MapErr { id, t, .. } | T::ApplyFn { id, t, .. } => {
            *id = ids.node;
            ids.node += 1;
            assign_t(t, ids);
        }
        T::BoxService(t) | T::RcService(t) | T::Rc(t) | T::Boxed(t) | T::RefCell(t) | T::Ref(t) | T::Split(t) | T::RefMut(t) | T::Pre { t, .. } => assign_t(t, ids),
    }
}

pub fn assign_f(f: &mut F, ids: &mut Ids) {
    match f {
        F::Leaf { id } | F::FnCfg { id } | F::Fn { id, .. } => {
            *id = ids.leaf;
            ids.leaf += 1;
        }
        F::AndThen(a, b) => {
            assign_f(a, ids);
            assign_f(b, ids);
        }
        F::Map { id, t, .. } | F::MapErr { id, t, .. } | F::MapInitErr { id, t, .. } | F::MapConfig { id, t, .. } | F::ApplyFn { id, t, .. } => {
            *id = ids.node;
            ids.node += 1;
            assign_f(t, ids);
        }
        F::UnitConfig { t, .. } | F::BoxFactory(t) | F::Rc(t) | F::Arc(t) => assign_f(t, ids),
        F::Transform { item, t, .. } | F::ApplyCfgFactory { item, t, .. } => {
            // inner first so that service leaves keep DFS order; the item id comes from the leaf space
            assign_f(t, ids);
            *item = ids.leaf;
            ids.leaf += 1;
        }
        F::ApplyCfg { item, s } => {
            assign_t(s, ids);
            *item = ids.leaf;
            ids.leaf += 1;
        }
    }
}

// ---- building the real thing -------------------------------------------------------------------

fn apply_closure(w: &W, id: usize, mode: ApplyMode, f: Aff) -> impl Fn(u32, &H) -> BF<Result<u32, u32>> + Clone {
    let w = w.clone();
    move |req: u32, svc: &H| -> BF<Result<u32, u32>> {
        w.ev(Ev::ApplyFn { node: id, req });
        match mode {
            ApplyMode::Pass => svc.call(req),
            ApplyMode::PreMap => svc.call(f.ap(req)),
            ApplyMode::ShortErr => {
                if req % 2 == 1 {
                    Box::pin(async move { Err(f.ap(req)) })
                } else {
                    svc.call(req)
                }
            }
            ApplyMode::PostMap => {
                let fut = svc.call(req);
                Box::pin(async move { fut.await.map(|v| f.ap(v)) })
            }
        }
    }
}

/// readiness through one clone, calls through another
struct SplitClone<S> {
    ask: S,
    send: S,
}

impl<S> Service<u32> for SplitClone<S>
where
    S: Service<u32, Response = u32, Error = u32>,
{
    type Response = u32;
    type Error = u32;
    type Future = S::Future;
    fn poll_ready(&self, cx: &mut std::task::Context<'_>) -> std::task::Poll<Result<(), u32>> {
        self.ask.poll_ready(cx)
    }
    fn call(&self, req: u32) -> Self::Future {
        self.send.call(req)
    }
}

/// `RefCell<S>` as a service, used by a caller that holds a `borrow()` guard across the call
struct HeldBorrow(Rc<RefCell<H>>);

impl Service<u32> for HeldBorrow {
    type Response = u32;
    type Error = u32;
    type Future = BF<Result<u32, u32>>;
    fn poll_ready(&self, cx: &mut std::task::Context<'_>) -> std::task::Poll<Result<(), u32>> {
        let _guard = self.0.borrow();
        Service::poll_ready(&*self.0, cx)
    }
    fn call(&self, req: u32) -> Self::Future {
        let _guard = self.0.borrow();
        Box::pin(Service::call(&*self.0, req))
    }
}

fn split<S>(s: S) -> H
where
    S: Service<u32, Response = u32, Error = u32> + Clone + 'static,
    S::Future: 'static,
{
    erase(SplitClone { ask: s.clone(), send: s })
}

pub fn build_t(t: &T, w: &W) -> H {
    match t {
        T::Leaf { id } => erase(LeafSvc { id: *id, w: w.clone() }),
        T::FnLeaf { id } => {
            let leaf = LeafSvc { id: *id, w: w.clone() };
            erase(fn_service(move |req: u32| leaf.call(req)))
        }
        T::AndThen(a, b) => erase(build_t(a, w).and_then(build_t(b, w))),
        T::Map { id, f, t } => {
            let (w2, id, f) = (w.clone(), *id, *f);
            erase(build_t(t, w).map(move |v: u32| {
                w2.ev(Ev::MapApply { node: id, input: v });
                f.ap(v)
            }))
        }
        T::MapErr { id, f, t } => {
            let (w2, id, f) = (w.clone(), *id, *f);
            erase(build_t(t, w).map_err(move |e: u32| {
                w2.ev(Ev::MapErrApply { node: id, input: e });
                f.ap(e)
            }))
        }
        T::ApplyFn { id, mode, f, t } => erase(apply_fn(build_t(t, w), apply_closure(w, *id, *mode, *f))),
        T::BoxService(t) => erase(boxed::service(build_t(t, w))),
        T::RcService(t) => erase(boxed::rc_service(build_t(t, w))),
        T::Rc(t) => erase(Rc::new(build_t(t, w))),
        T::Boxed(t) => erase(Box::new(build_t(t, w))),
        // the caller keeps a shared borrow of the cell alive while it calls through it (calling a
        // service needs `&self` only)
        T::RefCell(t) => erase(HeldBorrow(Rc::new(RefCell::new(build_t(t, w))))),
        T::Split(t) => match &**t {
            T::AndThen(a, b) => split(build_t(a, w).and_then(build_t(b, w))),
            T::Map { id, f, t: inner } => {
                let (w2, id, f) = (w.clone(), *id, *f);
                split(build_t(inner, w).map(move |v: u32| {
                    w2.ev(Ev::MapApply { node: id, input: v });
                    f.ap(v)
                }))
            }
            T::MapErr { id, f, t: inner } => {
                let (w2, id, f) = (w.clone(), *id, *f);
                split(build_t(inner, w).map_err(move |e: u32| {
                    w2.ev(Ev::MapErrApply { node: id, input: e });
                    f.ap(e)
                }))
            }
            other => split(build_t(other, w)),
        },
        T::RefMut(t) => {
            let leaked: &'static mut H = Box::leak(Box::new(build_t(t, w)));
            erase(leaked)
        }
        T::Ref(t) => {
            let leaked: &'static H = Box::leak(Box::new(build_t(t, w)));
            erase(leaked)
        }
        T::Pre { f, t } => erase(PreSvc { inner: build_t(t, w), pre: *f }),
    }
}

fn cfg_closure(w: &W, item: usize, deps: Vec<usize>) -> impl Fn(u32, &H) -> InitFut<PreSvc> + Clone {
    let w = w.clone();
    move |cfg: u32, srv: &H| {
        let deps_ready = deps.iter().all(|d| w.leaves.borrow()[*d].ready == RState::Ok);
        w.ev(Ev::CfgFn { item, cfg, deps_ready });
        init_fut(&w, item, PreSvc { inner: srv.clone(), pre: Aff { a: 1, b: cfg } })
    }
}

pub fn build_f(f: &F, w: &W) -> HF {
    match f {
        F::Leaf { id } => erase_fac(LeafFac { id: *id, w: w.clone() }),
        F::FnCfg { id } => {
            let lf = LeafFac { id: *id, w: w.clone() };
            erase_fac(fn_factory_with_config(move |cfg: u32| lf.new_service(cfg)))
        }
        F::Fn { id, c0 } => {
            let (lf, c0) = (LeafFac { id: *id, w: w.clone() }, *c0);
            erase_fac(fn_factory(move || lf.new_service(c0)))
        }
        F::AndThen(a, b) => erase_fac(build_f(a, w).and_then(build_f(b, w))),
        F::Map { id, f, t } => {
            let (w2, id, f) = (w.clone(), *id, *f);
            erase_fac(build_f(t, w).map(move |v: u32| {
                w2.ev(Ev::MapApply { node: id, input: v });
                f.ap(v)
            }))
        }
        F::MapErr { id, f, t } => {
            let (w2, id, f) = (w.clone(), *id, *f);
            erase_fac(build_f(t, w).map_err(move |e: u32| {
                w2.ev(Ev::MapErrApply { node: id, input: e });
                f.ap(e)
            }))
        }
        F::MapInitErr { id, f, t } => {
            let (w2, id, f) = (w.clone(), *id, *f);
            erase_fac(build_f(t, w).map_init_err(move |e: u32| {
                w2.ev(Ev::MapInitErrApply { node: id, input: e });
                f.ap(e)
            }))
        }
        F::MapConfig { id, f, t } => {
            let (w2, id, f) = (w.clone(), *id, *f);
            erase_fac(map_config(build_f(t, w), move |c: u32| {
                w2.ev(Ev::MapCfgApply { node: id, input: c });
                f.ap(c)
            }))
        }
        F::UnitConfig { c0, t } => erase_fac(unit_config::<_, _, u32, u32>(FixCfg(build_f(t, w), *c0))),
        F::ApplyFn { id, mode, f, t } => erase_fac(apply_fn_factory(build_f(t, w), apply_closure(w, *id, *mode, *f))),
        F::Transform { item, pre, t, wrap } => {
            let tr = Tr { item: *item, pre: *pre, w: w.clone() };
            // (TransformExt::map_init_err cannot be reached: its blanket impl asks for
            // `T: Transform<T, Req>`, a transform of itself)
            match wrap % 3 {
                0 => erase_fac(apply(tr, build_f(t, w))),
                1 => erase_fac(apply(Rc::new(tr), build_f(t, w))),
                _ => erase_fac(apply(std::sync::Arc::new(tr), build_f(t, w))),
            }
        }
        F::ApplyCfg { item, s } => erase_fac(apply_cfg(build_t(s, w), cfg_closure(w, *item, vec![]))),
        F::ApplyCfgFactory { item, c0, t } => {
            let deps = ready_deps(&svc_of(t)).into_iter().map(|d| d.0).collect();
            erase_fac(apply_cfg_factory(FixCfg(build_f(t, w), *c0), cfg_closure(w, *item, deps)))
        }
        F::BoxFactory(t) => erase_fac(boxed::factory(build_f(t, w))),
        F::Rc(t) => erase_fac(Rc::new(build_f(t, w))),
        F::Arc(t) => erase_fac(std::sync::Arc::new(build_f(t, w))),
    }
}

// ---- reference semantics -----------------------------------------------------------------------

/// the service expression a factory expression must produce
pub fn svc_of(f: &F) -> T {
    match f {
        F::Leaf { id } | F::FnCfg { id } | F::Fn { id, .. } => T::Leaf { id: *id },
        F::AndThen(a, b) => T::AndThen(Box::new(svc_of(a)), Box::new(svc_of(b))),
        F::Map { id, f, t } => T::Map { id: *id, f: *f, t: Box::new(svc_of(t)) },
        F::MapErr { id, f, t } => T::MapErr { id: *id, f: *f, t: Box::new(svc_of(t)) },
        F::MapInitErr { t, .. } | F::MapConfig { t, .. } | F::UnitConfig { t, .. } | F::BoxFactory(t) | F::Rc(t) | F::Arc(t) => svc_of(t),
        F::ApplyFn { id, mode, f, t } => T::ApplyFn { id: *id, mode: *mode, f: *f, t: Box::new(svc_of(t)) },
        F::Transform { pre, t, .. } => T::Pre { f: *pre, t: Box::new(svc_of(t)) },
        // the pre-map depends on the config: filled in by `svc_of_cfg`
        F::ApplyCfg { s, .. } => T::Pre { f: Aff::ID, t: s.clone() },
        F::ApplyCfgFactory { t, .. } => T::Pre { f: Aff::ID, t: Box::new(svc_of(t)) },
    }
}

/// like `svc_of`, with the configuration each node sees
pub fn svc_of_cfg(f: &F, cfg: u32) -> T {
    match f {
        F::Leaf { id } | F::FnCfg { id } | F::Fn { id, .. } => T::Leaf { id: *id },
        F::AndThen(a, b) => T::AndThen(Box::new(svc_of_cfg(a, cfg)), Box::new(svc_of_cfg(b, cfg))),
        F::Map { id, f, t } => T::Map { id: *id, f: *f, t: Box::new(svc_of_cfg(t, cfg)) },
        F::MapErr { id, f, t } => T::MapErr { id: *id, f: *f, t: Box::new(svc_of_cfg(t, cfg)) },
        F::MapInitErr { t, .. } | F::BoxFactory(t) | F::Rc(t) | F::Arc(t) => svc_of_cfg(t, cfg),
        F::MapConfig { f, t, .. } => svc_of_cfg(t, f.ap(cfg)),
        F::UnitConfig { c0, t } => svc_of_cfg(t, *c0),
        F::ApplyFn { id, mode, f, t } => T::ApplyFn { id: *id, mode: *mode, f: *f, t: Box::new(svc_of_cfg(t, cfg)) },
        F::Transform { pre, t, .. } => T::Pre { f: *pre, t: Box::new(svc_of_cfg(t, cfg)) },
        F::ApplyCfg { s, .. } => T::Pre { f: Aff { a: 1, b: cfg }, t: s.clone() },
        F::ApplyCfgFactory { c0, t, .. } => T::Pre { f: Aff { a: 1, b: cfg }, t: Box::new(svc_of_cfg(t, *c0)) },
    }
}

/// What initialisation must do: for every item (factory leaf / transform / config fn) the config it
/// must see (None for transforms) and the chain of map_init_err functions its error passes through
/// (inner to outer).
#[derive(Clone, Debug)]
pub struct InitItem {
    pub item: usize,
    pub cfg: Option<u32>,
    pub chain: Vec<(usize, Aff)>,
    pub kind: &'static str,
}

pub fn init_items(f: &F, cfg: u32, chain: &[(usize, Aff)], out: &mut Vec<InitItem>) {
    match f {
        F::Leaf { id } | F::FnCfg { id } => out.push(InitItem { item: *id, cfg: Some(cfg), chain: chain.to_vec(), kind: "factory" }),
        F::Fn { id, c0 } => out.push(InitItem { item: *id, cfg: Some(*c0), chain: chain.to_vec(), kind: "factory" }),
        F::AndThen(a, b) => {
            init_items(a, cfg, chain, out);
            init_items(b, cfg, chain, out);
        }
        F::Map { t, .. } | F::MapErr { t, .. } | F::ApplyFn { t, .. } | F::BoxFactory(t) | F::Rc(t) | F::Arc(t) => init_items(t, cfg, chain, out),
        F::MapInitErr { id, f, t } => {
            let mut c = vec![(*id, *f)];
            c.extend_from_slice(chain);
            // inner errors pass through this node first, then the outer chain
            let mut inner = vec![];
            init_items(t, cfg, &[], &mut inner);
            for mut it in inner {
                it.chain.extend_from_slice(&c);
                out.push(it);
            }
        }
        F::MapConfig { f, t, .. } => init_items(t, f.ap(cfg), chain, out),
        F::UnitConfig { c0, t } => init_items(t, *c0, chain, out),
        F::Transform { item, t, wrap, .. } => {
            init_items(t, cfg, chain, out);
            let _ = wrap;
            out.push(InitItem { item: *item, cfg: None, chain: chain.to_vec(), kind: "transform" });
        }
        F::ApplyCfg { item, .. } => out.push(InitItem { item: *item, cfg: Some(cfg), chain: chain.to_vec(), kind: "cfgfn" }),
        F::ApplyCfgFactory { item, c0, t } => {
            init_items(t, *c0, chain, out);
            out.push(InitItem { item: *item, cfg: Some(cfg), chain: chain.to_vec(), kind: "cfgfn" });
        }
    }
}

/// leaves whose readiness a service expression depends on, with the map_err chain (inner to outer)
pub fn ready_deps(t: &T) -> Vec<(usize, Vec<(usize, Aff)>)> {
    match t {
        T::Leaf { id } => vec![(*id, vec![])],
        T::FnLeaf { .. } => vec![],
        T::AndThen(a, b) => {
            let mut v = ready_deps(a);
            v.extend(ready_deps(b));
            v
        }
        T::MapErr { id, f, t } => ready_deps(t)
            .into_iter()
            .map(|(l, mut c)| {
                c.push((*id, *f));
                (l, c)
            })
            .collect(),
        T::Map { t, .. } | T::ApplyFn { t, .. } | T::BoxService(t) | T::RcService(t) | T::Rc(t) | T::Boxed(t) | T::RefCell(t) | T::Ref(t) | T::Split(t) | T::RefMut(t) | T::Pre { t, .. } => ready_deps(t),
    }
}

/// Reference interpreter: result and the exact sequential event log of one request.
pub fn eval(t: &T, req: u32, scripts: &[LeafScript], calls: &mut Vec<usize>, log: &mut Vec<Ev>) -> Result<u32, u32> {
    match t {
        T::Leaf { id } | T::FnLeaf { id } => {
            if calls.len() <= *id {
                calls.resize(*id + 1, 0);
            }
            let n = calls[*id];
            calls[*id] += 1;
            let (_, out) = scripts.get(*id).and_then(|s| s.calls.get(n).copied()).unwrap_or((0, Out::Ok(Aff::ID)));
            log.push(Ev::Call { leaf: *id, req });
            log.push(Ev::Done { leaf: *id });
            match out {
                Out::Ok(f) => Ok(f.ap(req)),
                Out::Err(f) => Err(f.ap(req)),
            }
        }
        T::AndThen(a, b) => {
            let r = eval(a, req, scripts, calls, log)?;
            eval(b, r, scripts, calls, log)
        }
        T::Map { id, f, t } => match eval(t, req, scripts, calls, log) {
            Ok(v) => {
                log.push(Ev::MapApply { node: *id, input: v });
                Ok(f.ap(v))
            }
            Err(e) => Err(e),
        },
        T::MapErr { id, f, t } => match eval(t, req, scripts, calls, log) {
            Ok(v) => Ok(v),
            Err(e) => {
                log.push(Ev::MapErrApply { node: *id, input: e });
                Err(f.ap(e))
            }
        },
        T::ApplyFn { id, mode, f, t } => {
            log.push(Ev::ApplyFn { node: *id, req });
            match mode {
                ApplyMode::Pass => eval(t, req, scripts, calls, log),
                ApplyMode::PreMap => eval(t, f.ap(req), scripts, calls, log),
                ApplyMode::ShortErr => {
                    if req % 2 == 1 {
                        Err(f.ap(req))
                    } else {
                        eval(t, req, scripts, calls, log)
                    }
                }
                ApplyMode::PostMap => eval(t, req, scripts, calls, log).map(|v| f.ap(v)),
            }
        }
        T::BoxService(t) | T::RcService(t) | T::Rc(t) | T::Boxed(t) | T::RefCell(t) | T::Ref(t) | T::Split(t) | T::RefMut(t) => eval(t, req, scripts, calls, log),
        T::Pre { f, t } => eval(t, f.ap(req), scripts, calls, log),
    }
}

pub fn depth_t(t: &T) -> usize {
    match t {
        T::Leaf { .. } | T::FnLeaf { .. } => 0,
        T::AndThen(a, b) => 1 + depth_t(a).max(depth_t(b)),
        T::Map { t, .. } | T::MapErr { t, .. } | T::ApplyFn { t, .. } | T::BoxService(t) | T::RcService(t) | T::Rc(t) | T::Boxed(t) | T::RefCell(t) | T::Ref(t) | T::Split(t) | T::RefMut(t) | T::Pre { t, .. } => 1 + depth_t(t),
    }
}

pub fn has_and_then_t(t: &T) -> bool {
    match t {
        T::Leaf { .. } | T::FnLeaf { .. } => false,
        T::AndThen(..) => true,
        T::Map { t, .. } | T::MapErr { t, .. } | T::ApplyFn { t, .. } | T::BoxService(t) | T::RcService(t) | T::Rc(t) | T::Boxed(t) | T::RefCell(t) | T::Ref(t) | T::Split(t) | T::RefMut(t) | T::Pre { t, .. } => has_and_then_t(t),
    }
}

pub fn count_leaves_t(t: &T) -> usize {
    match t {
        T::Leaf { .. } | T::FnLeaf { .. } => 1,
        T::AndThen(a, b) => count_leaves_t(a) + count_leaves_t(b),
        T::Map { t, .. } | T::MapErr { t, .. } | T::ApplyFn { t, .. } | T::BoxService(t) | T::RcService(t) | T::Rc(t) | T::Boxed(t) | T::RefCell(t) | T::Ref(t) | T::Split(t) | T::RefMut(t) | T::Pre { t, .. } => count_leaves_t(t),
    }
}

pub fn depth_f(f: &F) -> usize {
    match f {
        F::Leaf { .. } | F::FnCfg { .. } | F::Fn { .. } => 0,
        F::AndThen(a, b) => 1 + depth_f(a).max(depth_f(b)),
        F::ApplyCfg { s, .. } => 1 + depth_t(s),
        F::Map { t, .. } | F::MapErr { t, .. } | F::MapInitErr { t, .. } | F::MapConfig { t, .. } | F::UnitConfig { t, .. } | F::ApplyFn { t, .. } | F::Transform { t, .. }
        | F::ApplyCfgFactory { t, .. } | F::BoxFactory(t) | F::Rc(t) | F::Arc(t) => 1 + depth_f(t),
    }
}

pub fn is_chain_f(f: &F) -> bool {
    match f {
        F::Leaf { .. } | F::FnCfg { .. } | F::Fn { .. } => false,
        F::AndThen(..) | F::Transform { .. } | F::ApplyCfgFactory { .. } | F::ApplyCfg { .. } => true,
        F::Map { t, .. } | F::MapErr { t, .. } | F::MapInitErr { t, .. } | F::MapConfig { t, .. } | F::UnitConfig { t, .. } | F::ApplyFn { t, .. } | F::BoxFactory(t) | F::Rc(t) | F::Arc(t) => is_chain_f(t),
    }
}

pub fn has_transform_f(f: &F) -> bool {
    match f {
        F::Leaf { .. } | F::FnCfg { .. } | F::Fn { .. } | F::ApplyCfg { .. } => false,
        F::Transform { .. } => true,
        F::AndThen(a, b) => has_transform_f(a) || has_transform_f(b),
        F::Map { t, .. } | F::MapErr { t, .. } | F::MapInitErr { t, .. } | F::MapConfig { t, .. } | F::UnitConfig { t, .. } | F::ApplyFn { t, .. } | F::BoxFactory(t) | F::Rc(t) | F::Arc(t) | F::ApplyCfgFactory { t, .. } => has_transform_f(t),
    }
}
