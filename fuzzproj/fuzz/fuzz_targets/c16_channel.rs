#![no_main]
use libfuzzer_sys::fuzz_target;
fuzz_target!(|data: &[u8]| {
    let case = vl1::c16::case_from_bytes(data);
    vcore::fuzz::fuzz_one("C16", &case, vl1::c16::check_case);
});
