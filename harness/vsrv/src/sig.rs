//! C06, signal part: the check binary re-executes itself as a child server process (signals
//! enabled); the parent holds connections open, sends SIGINT / SIGTERM / SIGQUIT and times the exit.

use std::{
    io::{BufRead, BufReader, Read, Write},
    process::{Command, Stdio},
    time::{Duration, Instant},
};

use serde::{Deserialize, Serialize};
use vcore::{CaseResult, Fail, Obs};

#[derive(Clone, Copy, Debug, Serialize, Deserialize, PartialEq, Eq)]
pub enum Sig {
    Int,
    Term,
    Quit,
}

#[derive(Clone, Debug, Serialize, Deserialize, PartialEq)]
pub struct Case {
    pub sig: Sig,
    /// connections held open when the signal is sent
    pub held: u8,
    /// release the held connections this many ms after the signal (None: never)
    pub release_after_ms: Option<u32>,
    pub shutdown_timeout_s: u32,
    /// a thread of the server process keeps sending harmless commands (`resume()`) through the
    /// handle while the signal arrives: signals and commands reach the server through one stream
    #[serde(default)]
    pub chatter: bool,
}

/// child mode: `vcheck __child-server <shutdown_timeout_s>`
pub fn child_main(args: &[String]) -> ! {
    use actix_server::Server;
    use actix_service::fn_service;
    use tokio::io::{AsyncReadExt, AsyncWriteExt};
    let timeout: u64 = args.first().and_then(|s| s.parse().ok()).unwrap_or(2);
    let chatter = args.get(1).map(|a| a == "chatter").unwrap_or(false);
    let lst = std::net::TcpListener::bind("127.0.0.1:0").expect("bind");
    let port = lst.local_addr().unwrap().port();
    let r = actix_rt::System::new().block_on(async move {
        let srv = Server::build()
            .workers(1)
            .shutdown_timeout(timeout)
            .listen("sig", lst, || {
                fn_service(|mut s: actix_rt::net::TcpStream| async move {
                    let _ = s.write_all(b"G").await;
                    let mut b = [0u8; 1];
                    let _ = s.read(&mut b).await;
                    Ok::<_, ()>(())
                })
            })
            .expect("listen")
            .run();
        if chatter {
            let h = srv.handle();
            std::thread::spawn(move || loop {
                drop(h.resume());
                std::thread::sleep(std::time::Duration::from_micros(150));
            });
        }
        println!("PORT {port}");
        let _ = std::io::stdout().flush();
        srv.await
    });
    std::process::exit(if r.is_ok() { 0 } else { 3 });
}

pub fn check_case(c: &Case) -> CaseResult {
    let exe = std::env::current_exe().map_err(|e| Fail::new("harness/setup", format!("{e}")))?;
    let mut child = Command::new(exe)
        .arg("__child-server")
        .arg(c.shutdown_timeout_s.to_string())
        .arg(if c.chatter { "chatter" } else { "quiet" })
        .stdin(Stdio::null())
        .stdout(Stdio::piped())
        .stderr(Stdio::null())
        .spawn()
        .map_err(|e| Fail::new("harness/setup", format!("cannot start child: {e}")))?;
    let out = child.stdout.take().unwrap();
    let mut rd = BufReader::new(out);
    let mut line = String::new();
    let port: u16 = match rd.read_line(&mut line) {
        Ok(n) if n > 0 => line.trim().strip_prefix("PORT ").and_then(|p| p.parse().ok()).unwrap_or(0),
        _ => 0,
    };
    let kill = |child: &mut std::process::Child| {
        let _ = child.kill();
        let _ = child.wait();
    };
    if port == 0 {
        kill(&mut child);
        return Err(Fail::new("harness/setup", "child server did not report its port"));
    }
    // held connections: connected, greeted
    let mut conns = vec![];
    for _ in 0..c.held.min(2) {
        let t0 = Instant::now();
        let mut ok = None;
        while t0.elapsed() < Duration::from_secs(10) {
            if let Ok(mut s) = std::net::TcpStream::connect(("127.0.0.1", port)) {
                let _ = s.set_read_timeout(Some(Duration::from_secs(10)));
                let mut b = [0u8; 1];
                if s.read_exact(&mut b).is_ok() && b[0] == b'G' {
                    ok = Some(s);
                    break;
                }
            }
            std::thread::sleep(Duration::from_millis(10));
        }
        match ok {
            Some(s) => conns.push(s),
            None => {
                kill(&mut child);
                return Err(Fail::new("harness/setup", "child server did not serve the client"));
            }
        }
    }
    // the signal handlers are installed by the first poll of the server future; the served
    // connection proves the server runs; give the signal registration a moment
    std::thread::sleep(Duration::from_millis(100));
    let signo = match c.sig {
        Sig::Int => libc::SIGINT,
        Sig::Term => libc::SIGTERM,
        Sig::Quit => libc::SIGQUIT,
    };
    let t0 = Instant::now();
    unsafe {
        libc::kill(child.id() as i32, signo);
    }
    let mut released_at: Option<Duration> = None;
    let hard = Duration::from_secs(c.shutdown_timeout_s.min(4) as u64 + 12);
    let mut exited: Option<Duration> = None;
    while t0.elapsed() < hard {
        if let (Some(ms), None) = (c.release_after_ms, released_at) {
            if t0.elapsed() >= Duration::from_millis(ms as u64) {
                for s in conns.iter_mut() {
                    let _ = s.write_all(b"x");
                }
                released_at = Some(t0.elapsed());
            }
        }
        match child.try_wait() {
            Ok(Some(_)) => {
                exited = Some(t0.elapsed());
                break;
            }
            Ok(None) => {}
            Err(_) => break,
        }
        std::thread::sleep(Duration::from_millis(3));
    }
    let timeout = Duration::from_secs(c.shutdown_timeout_s as u64);
    let graceful = c.sig == Sig::Term;
    let held = !conns.is_empty();
    let res = match exited {
        None => {
            kill(&mut child);
            if graceful && held && released_at.is_none() && timeout > Duration::from_secs(10) {
                // graceful with a 30 s timeout and an unreleased connection: still waiting is right
                Ok(())
            } else {
                Err(Fail::new("C06/signal-no-exit", format!("{:?} with {} held connection(s) (released after {:?}), shutdown_timeout {:?}: the server process did not exit within {:?}", c.sig, conns.len(), released_at, timeout, hard)))
            }
        }
        Some(took) => {
            if graceful && held {
                let lower = match released_at {
                    Some(r) => r.min(timeout),
                    None => timeout,
                };
                if took + Duration::from_millis(30) < lower {
                    Err(Fail::new("C06/signal-graceful-too-early", format!("SIGTERM: the process exited after {:?} although its {} connection(s) in progress were released only after {:?} and shutdown_timeout is {:?}", took, conns.len(), released_at, timeout)))
                } else {
                    Ok(())
                }
            } else if !graceful && took > Duration::from_secs(10) {
                Err(Fail::new("C06/signal-forced-waited", format!("{:?}: forced shutdown took {:?} with {} held connection(s) and shutdown_timeout {:?}", c.sig, took, conns.len(), timeout)))
            } else {
                Ok(())
            }
        }
    };
    drop(conns);
    res?;
    let mut obs = Obs::new();
    obs.nontrivial = held;
    obs.label(match c.sig {
        Sig::Int => "SIGINT",
        Sig::Term => "SIGTERM",
        Sig::Quit => "SIGQUIT",
    });
    obs.label_if(held, "held-connection");
    obs.label_if(c.chatter, "commands-while-signalled");
    Ok(obs)
}

pub fn all_cases() -> Vec<Case> {
    let mut v = vec![];
    for sig in [Sig::Term, Sig::Int, Sig::Quit] {
        for held in 0..=2u8 {
            for release in [None, Some(400u32)] {
                for t in [2u32, 30] {
                    if held == 0 && release.is_some() {
                        continue;
                    }
                    // graceful + 30 s + never released would only wait: keep one such case
                    if sig == Sig::Term && t == 30 && release.is_none() && held != 1 {
                        continue;
                    }
                    v.push(Case { sig, held, release_after_ms: release, shutdown_timeout_s: t, chatter: false });
                    // the same while commands keep arriving (one timeout each is enough)
                    if held <= 1 && (t == 2) == (sig == Sig::Term) {
                        v.push(Case { sig, held, release_after_ms: release, shutdown_timeout_s: t, chatter: true });
                    }
                }
            }
        }
    }
    v
}
