//! In-memory transport for the TLS checks: tokio duplex pipes wrapped as `ActixStream`, and a
//! client-side shaper that stalls, delays or cuts the client's writes.

use std::{
    future::Future,
    io,
    pin::Pin,
    task::{Context, Poll},
    time::Duration,
};

use actix_rt::net::{ActixStream, Ready};
use tokio::{
    io::{AsyncRead, AsyncWrite, DuplexStream, ReadBuf},
    time::Sleep,
};

pub struct Pipe(pub DuplexStream);

impl AsyncRead for Pipe {
    fn poll_read(mut self: Pin<&mut Self>, cx: &mut Context<'_>, buf: &mut ReadBuf<'_>) -> Poll<io::Result<()>> {
        Pin::new(&mut self.0).poll_read(cx, buf)
    }
}

impl AsyncWrite for Pipe {
    fn poll_write(mut self: Pin<&mut Self>, cx: &mut Context<'_>, buf: &[u8]) -> Poll<io::Result<usize>> {
        Pin::new(&mut self.0).poll_write(cx, buf)
    }
    fn poll_flush(mut self: Pin<&mut Self>, cx: &mut Context<'_>) -> Poll<io::Result<()>> {
        Pin::new(&mut self.0).poll_flush(cx)
    }
    fn poll_shutdown(mut self: Pin<&mut Self>, cx: &mut Context<'_>) -> Poll<io::Result<()>> {
        Pin::new(&mut self.0).poll_shutdown(cx)
    }
}

impl ActixStream for Pipe {
    fn poll_read_ready(&self, _: &mut Context<'_>) -> Poll<io::Result<Ready>> {
        Poll::Ready(Ok(Ready::READABLE))
    }
    fn poll_write_ready(&self, _: &mut Context<'_>) -> Poll<io::Result<Ready>> {
        Poll::Ready(Ok(Ready::WRITABLE))
    }
}

/// Client-side shaper.  `budget`: bytes that may be written before the client stalls for good
/// (None = unlimited).  `delays`: virtual delay before the i-th write call that carries data.
pub struct Shaped {
    pub inner: Pipe,
    pub budget: Option<usize>,
    pub delays: Vec<u32>,
    pub writes: usize,
    sleeping: Option<Pin<Box<Sleep>>>,
    slept_for_write: Option<usize>,
}

impl Shaped {
    pub fn new(inner: Pipe, budget: Option<usize>, delays: Vec<u32>) -> Self {
        Shaped { inner, budget, delays, writes: 0, sleeping: None, slept_for_write: None }
    }
}

impl AsyncRead for Shaped {
    fn poll_read(mut self: Pin<&mut Self>, cx: &mut Context<'_>, buf: &mut ReadBuf<'_>) -> Poll<io::Result<()>> {
        Pin::new(&mut self.inner).poll_read(cx, buf)
    }
}

impl AsyncWrite for Shaped {
    fn poll_write(mut self: Pin<&mut Self>, cx: &mut Context<'_>, buf: &[u8]) -> Poll<io::Result<usize>> {
        let this = &mut *self;
        if buf.is_empty() {
            return Poll::Ready(Ok(0));
        }
        if let Some(0) = this.budget {
            // stalled: never wakes
            return Poll::Pending;
        }
        // delay before this write
        let d = this.delays.get(this.writes).copied().unwrap_or(0);
        if d > 0 && this.slept_for_write != Some(this.writes) {
            if this.sleeping.is_none() {
                this.sleeping = Some(Box::pin(tokio::time::sleep(Duration::from_millis(d as u64))));
            }
            match this.sleeping.as_mut().unwrap().as_mut().poll(cx) {
                Poll::Pending => return Poll::Pending,
                Poll::Ready(()) => {
                    this.sleeping = None;
                    this.slept_for_write = Some(this.writes);
                }
            }
        }
        let n = match this.budget {
            Some(b) => buf.len().min(b),
            None => buf.len(),
        };
        match Pin::new(&mut this.inner).poll_write(cx, &buf[..n]) {
            Poll::Ready(Ok(w)) => {
                if let Some(b) = this.budget.as_mut() {
                    *b -= w;
                }
                this.writes += 1;
                Poll::Ready(Ok(w))
            }
            other => other,
        }
    }
    fn poll_flush(mut self: Pin<&mut Self>, cx: &mut Context<'_>) -> Poll<io::Result<()>> {
        Pin::new(&mut self.inner).poll_flush(cx)
    }
    fn poll_shutdown(mut self: Pin<&mut Self>, cx: &mut Context<'_>) -> Poll<io::Result<()>> {
        Pin::new(&mut self.inner).poll_shutdown(cx)
    }
}

impl ActixStream for Shaped {
    fn poll_read_ready(&self, _: &mut Context<'_>) -> Poll<io::Result<Ready>> {
        Poll::Ready(Ok(Ready::READABLE))
    }
    fn poll_write_ready(&self, _: &mut Context<'_>) -> Poll<io::Result<Ready>> {
        Poll::Ready(Ok(Ready::WRITABLE))
    }
}

pub fn pipe_pair() -> (Pipe, Pipe) {
    pipe_pair_cap(1 << 20)
}

/// a pipe that holds at most `cap` bytes per direction: a writer that is ahead of its reader sees
/// `Pending` in the middle of what it writes
pub fn pipe_pair_cap(cap: usize) -> (Pipe, Pipe) {
    let (a, b) = tokio::io::duplex(cap.max(64));
    (Pipe(a), Pipe(b))
}
