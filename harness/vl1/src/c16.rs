//! C16 — local-channel: FIFO, exactly once, clean closure, no lost wake-up.
//!
//! Oracle: reference model (VecDeque + closed + receiver_alive + sender count + parked waker).

use std::{
    collections::VecDeque,
    panic::{catch_unwind, AssertUnwindSafe},
    pin::Pin,
    sync::atomic::Ordering,
    task::{Context, Poll},
};

use futures_core::Stream;
use futures_sink::Sink;
use local_channel::mpsc;
use proptest::prelude::*;
use serde::{Deserialize, Serialize};
use serde_json::Value;
use vcore::{vensure, vfail, CaseResult, Ctx, Obs, Part};

use crate::c17::count_waker;

#[derive(Clone, Copy, Debug, Serialize, Deserialize, PartialEq)]
pub enum Op {
    /// send the next value through live sender `s`
    Send { s: u16 },
    /// same through the Sink interface (poll_ready, start_send, poll_flush)
    SinkSend { s: u16 },
    /// 65..184 sends through the first sender followed by as many polls: a long run of receives
    /// without a `Pending` in between (each must yield the next value)
    Flood { n: u8 },
    /// `Sink::poll_close` on sender `s`: finishing one sender handle as a sink does not close the
    /// channel (that is what `Sender::close` is for) and leaves every sender usable
    SinkClose { s: u16 },
    CloneSender { s: u16 },
    DropSender { s: u16 },
    /// Sink: poll_ready, start_send, then poll_close without a flush in between (what
    /// `SinkExt::close` and the end of `forward` do): the item is sent and the receiver woken
    SinkFeedClose { s: u16 },
    /// `senders[s].clone_from(&sender of ANOTHER channel)`: the handle leaves this channel exactly
    /// as if it had been dropped (the last one leaving wakes the receiver)
    CloneFromOther { s: u16 },
    /// `senders[s].clone_from(&senders[t])` within the channel: nothing changes
    CloneFromSame { s: u16, t: u16 },
    Close { s: u16 },
    /// poll the receiver once with a fresh counting waker
    Poll,
    /// the same through `Receiver::recv()` (future created, polled once, dropped)
    PollRecv,
    /// poll with one of two long-lived wakers (a task that is re-polled keeps its waker)
    PollSame { w: u8 },
    /// Receiver::sender()
    SenderFromReceiver,
    DropReceiver,
}

#[derive(Clone, Debug, Serialize, Deserialize, PartialEq)]
pub struct Case {
    pub ops: Vec<Op>,
}

pub fn check_case(c: &Case) -> CaseResult {
    match catch_unwind(AssertUnwindSafe(|| check_inner(c))) {
        Ok(r) => r,
        Err(p) => vfail!("C16/panic", "local-channel panicked: {} ; ops {:?}", vcore::panic_message(&*p), c.ops),
    }
}

const MAX_SENDERS: usize = 3;

fn check_inner(c: &Case) -> CaseResult {
    let (tx, rx) = mpsc::channel::<u32>();
    // kept in `Sut`: leaked instead of dropped while a panic of the channel unwinds
    let mut senders = vec![vcore::Sut::new(tx)];
    let mut rx = Some(vcore::Sut::new(rx));
    // another channel, only as a clone_from source; senders that moved there are kept alive
    let other = {
        let (t, r) = mpsc::channel::<u32>();
        (vcore::Sut::new(t), vcore::Sut::new(r))
    };
    let mut elsewhere: Vec<vcore::Sut<mpsc::Sender<u32>>> = vec![];
    // model
    let mut queue: VecDeque<u32> = VecDeque::new();
    let mut closed = false;
    let mut next_val = 0u32;
    // wakers of Pending polls; parked = index of the most recent one still owed a wake-up
    let reusable = [count_waker(), count_waker()];
    let mut same_waker_repoll = false;
    let mut last_pending_same: Option<u8> = None;
    let mut parked: Option<(std::sync::Arc<crate::c17::CountWaker>, usize)> = None;
    let mut obs = Obs::new();
    let (mut wake_after_pending, mut close_then_poll, mut received, mut ended) = (false, false, 0u32, false);

    macro_rules! owed_wake {
        ($step:expr, $what:expr) => {
            if let Some((cw, at)) = parked.take() {
                let now = cw.0.load(Ordering::SeqCst);
                wake_after_pending = true;
                vensure!(now > at, "C16/lost-wakeup",
                    "step {}: the receiver returned Pending earlier and was not woken by {}; ops {:?}", $step, $what, c.ops);
            }
        };
    }

    let expanded: Vec<Op> = c
        .ops
        .iter()
        .flat_map(|o| match o {
            Op::Flood { n } => {
                let k = 65 + (*n as usize % 120);
                let mut v = vec![Op::Send { s: 0 }; k];
                v.extend(std::iter::repeat(Op::Poll).take(k));
                v
            }
            other => vec![*other],
        })
        .collect();
    if expanded.len() > c.ops.len() {
        obs.label("long-run-of-receives");
    }
    for (step, op) in expanded.iter().enumerate() {
        match *op {
            Op::Flood { .. } => {}
            Op::Send { s } | Op::SinkSend { s } => {
                if senders.is_empty() {
                    continue;
                }
                let i = vcore::pick(s, senders.len());
                let v = next_val;
                next_val += 1;
                let res: Result<(), u32> = if matches!(op, Op::Send { .. }) {
                    senders[i].send(v).map_err(|e| e.into_inner())
                } else {
                    let (_cw, w) = count_waker();
                    let mut cx = Context::from_waker(&w);
                    let mut p = Pin::new(&mut *senders[i]);
                    vensure!(matches!(p.as_mut().poll_ready(&mut cx), Poll::Ready(Ok(()))), "C16/sink", "step {}: Sink::poll_ready not Ready(Ok)", step);
                    let r = p.as_mut().start_send(v).map_err(|e| e.into_inner());
                    vensure!(matches!(p.as_mut().poll_flush(&mut cx), Poll::Ready(Ok(()))), "C16/sink", "step {}: Sink::poll_flush not Ready(Ok)", step);
                    r
                };
                let want_err = rx.is_none() || closed;
                match res {
                    Ok(()) => {
                        vensure!(!want_err, "C16/send-after-close",
                            "step {}: send succeeded although the {}; ops {:?}", step, if rx.is_none() { "receiver was dropped" } else { "channel was closed" }, c.ops);
                        queue.push_back(v);
                        owed_wake!(step, "the next successful send");
                    }
                    Err(back) => {
                        vensure!(want_err, "C16/send-spurious-error", "step {}: send failed although the receiver is alive and the channel open; ops {:?}", step, c.ops);
                        vensure!(back == v, "C16/send-error-item", "step {}: SendError returned {} instead of the rejected item {}", step, back, v);
                    }
                }
            }
            Op::CloneSender { s } => {
                if senders.is_empty() || senders.len() >= MAX_SENDERS {
                    continue;
                }
                let i = vcore::pick(s, senders.len());
                let n = (*senders[i]).clone();
                senders.push(vcore::Sut::new(n));
            }
            Op::SinkFeedClose { s } => {
                if senders.is_empty() {
                    continue;
                }
                let i = vcore::pick(s, senders.len());
                let v = next_val;
                next_val += 1;
                let (_cw, w) = count_waker();
                let mut cx = Context::from_waker(&w);
                let mut p = Pin::new(&mut *senders[i]);
                vensure!(matches!(p.as_mut().poll_ready(&mut cx), Poll::Ready(Ok(()))), "C16/sink", "step {}: Sink::poll_ready not Ready(Ok)", step);
                let res = p.as_mut().start_send(v).map_err(|e| e.into_inner());
                vensure!(matches!(p.as_mut().poll_close(&mut cx), Poll::Ready(Ok(()))), "C16/sink", "step {}: Sink::poll_close not Ready(Ok)", step);
                let want_err = rx.is_none() || closed;
                match res {
                    Ok(()) => {
                        vensure!(!want_err, "C16/send-after-close", "step {}: start_send succeeded although the {}; ops {:?}", step, if rx.is_none() { "receiver was dropped" } else { "channel was closed" }, c.ops);
                        queue.push_back(v);
                        obs.label("sink-feed-then-close");
                        owed_wake!(step, "start_send followed by a completed poll_close");
                    }
                    Err(back) => {
                        vensure!(want_err, "C16/send-spurious-error", "step {}: start_send failed although the receiver is alive and the channel open; ops {:?}", step, c.ops);
                        vensure!(back == v, "C16/send-error-item", "step {}: SendError returned {} instead of the rejected item {}", step, back, v);
                    }
                }
            }
            Op::CloneFromOther { s } => {
                if senders.is_empty() {
                    continue;
                }
                let i = vcore::pick(s, senders.len());
                let mut moved = senders.remove(i);
                (*moved).clone_from(&*other.0);
                elsewhere.push(moved);
                obs.label("clone_from-another-channel");
                if senders.is_empty() && rx.is_some() {
                    owed_wake!(step, "clone_from re-pointing the last sender at another channel");
                }
            }
            Op::CloneFromSame { s, t } => {
                if senders.len() < 2 {
                    continue;
                }
                let i = vcore::pick(s, senders.len());
                let j = vcore::pick(t, senders.len());
                if i == j {
                    continue;
                }
                let src = (*senders[j]).clone();
                (*senders[i]).clone_from(&src);
                drop(src);
            }
            Op::DropSender { s } => {
                if senders.is_empty() {
                    continue;
                }
                let i = vcore::pick(s, senders.len());
                drop(senders.remove(i));
                if senders.is_empty() && rx.is_some() {
                    owed_wake!(step, "the drop of the last sender");
                }
            }
            Op::Close { s } => {
                if senders.is_empty() {
                    continue;
                }
                let i = vcore::pick(s, senders.len());
                senders[i].close();
                if rx.is_some() {
                    closed = true;
                    owed_wake!(step, "close()");
                }
            }
            Op::Poll | Op::PollRecv | Op::PollSame { .. } => {
                let Some(r) = rx.as_mut() else { continue };
                let r: &mut mpsc::Receiver<u32> = &mut *r;
                let cw = match op {
                    Op::PollSame { w } => {
                        let (a, wk) = &reusable[(*w % 2) as usize];
                        (a.clone(), wk.clone())
                    }
                    _ => count_waker(),
                };
                let mut cx = Context::from_waker(&cw.1);
                let got = if matches!(op, Op::Poll) {
                    Pin::new(r).poll_next(&mut cx)
                } else {
                    use std::future::Future;
                    let mut fut = Box::pin(r.recv());
                    fut.as_mut().poll(&mut cx)
                };
                let want: Poll<Option<u32>> = if let Some(v) = queue.pop_front() {
                    Poll::Ready(Some(v))
                } else if closed || senders.is_empty() {
                    Poll::Ready(None)
                } else {
                    Poll::Pending
                };
                if closed {
                    close_then_poll = true;
                }
                vensure!(got == want, if closed && !senders.is_empty() && want == Poll::Ready(None) { "C16/closed-not-ended" } else { "C16/poll-mismatch" },
                    "step {}: poll_next returned {:?}, model says {:?} (closed={}, senders={}); ops {:?}", step, got, want, closed, senders.len(), c.ops);
                if !matches!(got, Poll::Pending) {
                    last_pending_same = None;
                }
                match got {
                    Poll::Pending => {
                        if let Op::PollSame { w } = op {
                            if last_pending_same == Some(*w % 2) {
                                same_waker_repoll = true;
                            }
                            last_pending_same = Some(*w % 2);
                        } else {
                            last_pending_same = None;
                        }
                        let at = cw.0 .0.load(Ordering::SeqCst);
                        parked = Some((cw.0.clone(), at));
                    }
                    Poll::Ready(Some(_)) => received += 1,
                    Poll::Ready(None) => ended = true,
                }
            }
            Op::SenderFromReceiver => {
                if senders.len() >= MAX_SENDERS {
                    continue;
                }
                if let Some(r) = rx.as_ref() {
                    senders.push(vcore::Sut::new(r.sender()));
                }
            }
            Op::SinkClose { s } => {
                if senders.is_empty() {
                    continue;
                }
                let i = vcore::pick(s, senders.len());
                let (_cw, w) = count_waker();
                let mut cx = Context::from_waker(&w);
                let r = Pin::new(&mut *senders[i]).poll_close(&mut cx);
                vensure!(matches!(r, Poll::Ready(Ok(()))), "C16/sink", "step {}: Sink::poll_close not Ready(Ok)", step);
                obs.label("sink-close");
            }
            Op::DropReceiver => {
                if rx.take().is_some() {
                    queue.clear();
                    parked = None;
                }
            }
        }
    }
    // final drain: everything still buffered must come out in order, exactly once
    if let Some(r) = rx.as_mut() {
        let r: &mut mpsc::Receiver<u32> = &mut *r;
        let cw = count_waker();
        let mut cx = Context::from_waker(&cw.1);
        while let Some(v) = queue.pop_front() {
            let got = Pin::new(&mut *r).poll_next(&mut cx);
            vensure!(got == Poll::Ready(Some(v)), "C16/drain-mismatch", "final drain: expected {:?}, got {:?}; ops {:?}", v, got, c.ops);
            received += 1;
        }
    }
    obs.nontrivial = wake_after_pending || (close_then_poll && !senders.is_empty());
    obs.label_if(wake_after_pending, "wake-after-pending");
    obs.label_if(same_waker_repoll, "same-waker-repoll");
    obs.label_if(close_then_poll, "poll-after-close");
    obs.label_if(received >= 2, "received>=2");
    obs.label_if(ended, "stream-ended");
    obs.label_if(rx.is_none(), "receiver-dropped");
    Ok(obs)
}

/// second exhaustive alphabet: the rarer entry points with a core of the first
const ALPHA2: [Op; 9] = [
    Op::SinkFeedClose { s: 0 },
    Op::CloneFromOther { s: 0 },
    Op::CloneFromSame { s: 0, t: 65535 },
    Op::Send { s: 0 },
    Op::CloneSender { s: 0 },
    Op::DropSender { s: 0 },
    Op::Poll,
    Op::PollSame { w: 0 },
    Op::Close { s: 0 },
];

const ALPHA: [Op; 11] = [
    Op::SinkClose { s: 0 },
    Op::PollSame { w: 0 },
    Op::Send { s: 0 },
    Op::Send { s: 65535 },
    Op::CloneSender { s: 0 },
    Op::DropSender { s: 0 },
    Op::DropSender { s: 65535 },
    Op::Close { s: 0 },
    Op::Poll,
    Op::SenderFromReceiver,
    Op::DropReceiver,
];

fn op() -> impl Strategy<Value = Op> {
    prop_oneof![
        5 => any::<u16>().prop_map(|s| Op::Send { s }),
        1 => any::<u16>().prop_map(|s| Op::SinkSend { s }),
        1 => any::<u16>().prop_map(|s| Op::SinkClose { s }),
        1 => any::<u8>().prop_map(|n| Op::Flood { n }),
        2 => any::<u16>().prop_map(|s| Op::CloneSender { s }),
        3 => any::<u16>().prop_map(|s| Op::DropSender { s }),
        1 => any::<u16>().prop_map(|s| Op::SinkFeedClose { s }),
        1 => any::<u16>().prop_map(|s| Op::CloneFromOther { s }),
        1 => (any::<u16>(), any::<u16>()).prop_map(|(s, t)| Op::CloneFromSame { s, t }),
        2 => any::<u16>().prop_map(|s| Op::Close { s }),
        3 => Just(Op::Poll),
        2 => Just(Op::PollRecv),
        3 => (0u8..2).prop_map(|w| Op::PollSame { w }),
        1 => Just(Op::SenderFromReceiver),
        1 => Just(Op::DropReceiver),
    ]
}

pub fn strategy() -> impl Strategy<Value = Case> {
    // receiver drop and close end most of the interesting behaviour: keep them out of the prefix
    (prop::collection::vec(op().prop_filter("no early end", |o| !matches!(o, Op::DropReceiver | Op::Close { .. })), 0..24),
     prop::collection::vec(op(), 0..20))
        .prop_map(|(mut a, b)| {
            a.extend(b);
            Case { ops: a }
        })
}

pub fn case_from_bytes(data: &[u8]) -> Case {
    Case {
        ops: data
            .iter()
            .map(|b| {
                let s = ((*b >> 4) as u16) << 12;
                match b % 16 {
                    0..=3 => Op::Send { s },
                    4 => if s & 0x1000 != 0 { Op::SinkClose { s } } else { Op::SinkSend { s } },
                    5 | 6 => Op::CloneSender { s },
                    7 | 8 => Op::DropSender { s },
                    9 => Op::Close { s },
                    10 | 11 => Op::Poll,
                    12 => Op::PollSame { w: (*b >> 4) & 1 },
                    13 => Op::PollRecv,
                    14 => Op::SenderFromReceiver,
                    _ => Op::DropReceiver,
                }
            })
            .collect(),
    }
}

const RULE: &str = "operation sequences over {send, Sink send, Sink start_send completed by poll_close, Sink close (a no-op for the channel), clone_from a sender of another channel (= leaving this one) or of this one, a flood of 65..184 sends followed by as many polls, clone sender, drop a sender, close, poll receiver with a fresh counting waker or one of two long-lived wakers (also through recv()), sender-from-receiver, drop receiver} with <=3 senders, applied to local_channel::mpsc and to a reference queue model; send must fail exactly when the receiver is gone or the channel closed (returning the item); poll_next must equal the model; a Pending poll's waker must be woken by the next successful send, the last sender's drop and close (extra wake-ups allowed); a final drain must return the buffered items in order; non-trivial = a Pending poll followed by send/last-drop/close, or close with a live sender followed by a poll";

pub fn run(ctx: &Ctx) {
    ctx.assume("single-threaded use (the channel is !Send); wake-ups observed through counting wakers, one fresh waker per poll or one of two long-lived wakers");
    ctx.run_corpus::<Case>("ops", check_case);
    let max_len = ctx.tier.pick(7u32, 8u32);
    let k = ALPHA.len() as u64;
    let total: u64 = (0..=max_len).map(|l| k.pow(l)).sum();
    ctx.run_enum(
        Part::new("ops-exhaustive", RULE, total),
        |shard, n, f: &mut dyn FnMut(&Case) -> bool| {
            let idx: Vec<u8> = (0..k as u8).collect();
            let mut ix = shard as u64;
            while ix < total {
                let s = crate::c15::nth_string(ix, &idx);
                if !f(&Case { ops: s.iter().map(|i| ALPHA[*i as usize]).collect() }) {
                    return;
                }
                ix += n as u64;
            }
        },
        check_case,
    );
    {
        let max_len2 = ctx.tier.pick(6u32, 7u32);
        let k2 = ALPHA2.len() as u64;
        let total2: u64 = (0..=max_len2).map(|l| k2.pow(l)).sum();
        ctx.run_enum(
            Part::new("ops-exhaustive-2", RULE, total2),
            |shard, n, f: &mut dyn FnMut(&Case) -> bool| {
                let idx: Vec<u8> = (0..k2 as u8).collect();
                let mut ix = shard as u64;
                while ix < total2 {
                    let s = crate::c15::nth_string(ix, &idx);
                    if !f(&Case { ops: s.iter().map(|i| ALPHA2[*i as usize]).collect() }) {
                        return;
                    }
                    ix += n as u64;
                }
            },
            check_case,
        );
    }
    ctx.run_random(
        Part::new("ops", RULE, ctx.tier.scale(40_000, 20)).floors(&[("wake-after-pending", 0.3), ("poll-after-close", 0.1), ("received>=2", 0.3), ("same-waker-repoll", 0.03)]),
        strategy,
        check_case,
    );
    if ctx.tier == vcore::Tier::Thorough {
        ctx.run_fuzz(
            vcore::fuzz::Campaign { target: "c16_channel", part: "ops", runs_per_proc: 400_000, procs: 4, max_len: 48, rule: RULE },
            &[vec![10, 0, 10, 5, 9, 10], vec![0, 0, 10, 10, 10, 7, 10]],
            &|bytes| {
                let c = case_from_bytes(bytes);
                let r = check_case(&c);
                Some((serde_json::to_value(&c).unwrap(), r))
            },
            &|v| serde_json::from_value::<Case>(v.clone()).ok().map(|c| check_case(&c)),
        );
    }
}

pub fn replay(ctx: &Ctx, v: &Value) -> i32 {
    ctx.replay::<Case>(v, check_case)
}
