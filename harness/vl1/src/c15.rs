//! C15 — LinesCodec frames lines exactly.
//!
//! Oracle: an independent reference splitter written from the property text.

use std::panic::{catch_unwind, AssertUnwindSafe};

use actix_codec::{Decoder, Encoder, LinesCodec};
use bytes::BytesMut;
use proptest::prelude::*;
use serde::{Deserialize, Serialize};
use serde_json::Value;
use vcore::{vensure, vfail, CaseResult, Ctx, Obs, Part};

pub const ALPHABET: [u8; 6] = [b'a', b'\r', b'\n', 0xC3, 0xA9, 0xFF];

#[derive(Clone, Debug, Serialize, Deserialize, PartialEq)]
pub struct DecodeCase {
    pub input: Vec<u8>,
    /// the input is fed to the decoder in two pieces: input[..split] then the rest (clipped to len)
    pub split: usize,
}

#[derive(Clone, Debug, Serialize, Deserialize, PartialEq)]
pub struct EncodeCase {
    pub lines: Vec<String>,
    /// bytes already in the destination buffer before encoding (must be left untouched)
    pub prefix: Vec<u8>,
}

/// One decoded item: Ok(line) or Err(io error kind as text)
pub type Item = Result<String, String>;

fn strip_cr(seg: &[u8]) -> &[u8] {
    match seg.last() {
        Some(b'\r') => &seg[..seg.len() - 1],
        _ => seg,
    }
}

fn to_item(seg: &[u8]) -> Item {
    match std::str::from_utf8(seg) {
        Ok(s) => Ok(s.to_string()),
        Err(_) => Err("InvalidData".to_string()),
    }
}

/// Reference: (items for newline-terminated lines, optional end-of-stream item)
pub fn reference(input: &[u8]) -> (Vec<Item>, Option<Item>) {
    let mut items = vec![];
    let mut rest = input;
    while let Some(pos) = rest.iter().position(|b| *b == b'\n') {
        items.push(to_item(strip_cr(&rest[..pos])));
        rest = &rest[pos + 1..];
    }
    let tail = strip_cr(rest);
    let eof = if tail.is_empty() { None } else { Some(to_item(tail)) };
    (items, eof)
}

fn conv(r: Result<Option<String>, std::io::Error>) -> Option<Item> {
    match r {
        Ok(Some(s)) => Some(Ok(s)),
        Ok(None) => None,
        Err(e) => Some(Err(format!("{:?}", e.kind()))),
    }
}

/// Run the real decoder: feed `first`, decode until None, feed `second`, decode until None, then
/// decode_eof until None.
pub fn run_decoder(first: &[u8], second: &[u8]) -> Result<(Vec<Item>, Vec<Item>), String> {
    let mut codec = LinesCodec::default();
    let mut buf = BytesMut::new();
    let mut items = vec![];
    let bound = first.len() + second.len() + 4;
    for piece in [first, second] {
        buf.extend_from_slice(piece);
        let mut n = 0;
        while let Some(it) = conv(codec.decode(&mut buf)) {
            items.push(it);
            n += 1;
            if n > bound {
                return Err("decode does not terminate".into());
            }
        }
    }
    let mut eof_items = vec![];
    let mut n = 0;
    while let Some(it) = conv(codec.decode_eof(&mut buf)) {
        eof_items.push(it);
        n += 1;
        if n > bound {
            return Err("decode_eof does not terminate".into());
        }
    }
    Ok((items, eof_items))
}

pub fn check_decode(c: &DecodeCase) -> CaseResult {
    let split = c.split.min(c.input.len());
    let (a, b) = c.input.split_at(split);
    let got = catch_unwind(AssertUnwindSafe(|| run_decoder(a, b)));
    let (items, eof_items) = match got {
        Err(p) => vfail!("C15/decode-panic", "decoder panicked on {:?} split {}: {}", c.input, split, vcore::panic_message(&*p)),
        Ok(Err(e)) => vfail!("C15/decode-nonterminating", "{} on {:?} split {}", e, c.input, split),
        Ok(Ok(x)) => x,
    };
    let (want_items, want_eof) = reference(&c.input);
    vensure!(items == want_items, "C15/decode-mismatch",
        "terminated lines differ for input {:?} split {}: decoder {:?}, reference {:?}", c.input, split, items, want_items);
    let want_eof: Vec<Item> = want_eof.into_iter().collect();
    vensure!(eof_items == want_eof, "C15/decode-eof-mismatch",
        "end-of-stream items differ for input {:?} split {}: decoder {:?}, reference {:?}", c.input, split, eof_items, want_eof);
    // the other way to drain a buffer: decode_eof alone (a reader that got everything in one piece
    // and knows the stream has ended); it yields every terminated line and then the tail as well
    let got2 = catch_unwind(AssertUnwindSafe(|| {
        let mut codec = LinesCodec::default();
        let mut buf = BytesMut::from(&c.input[..]);
        let mut out = vec![];
        for _ in 0..c.input.len() + 4 {
            match conv(codec.decode_eof(&mut buf)) {
                Some(it) => out.push(it),
                None => return Ok(out),
            }
        }
        Err("decode_eof does not terminate")
    }));
    match got2 {
        Err(p) => vfail!("C15/decode-panic", "decode_eof panicked on {:?}: {}", c.input, vcore::panic_message(&*p)),
        Ok(Err(e)) => vfail!("C15/decode-nonterminating", "{} on {:?}", e, c.input),
        Ok(Ok(all)) => {
            let want_all: Vec<Item> = want_items.iter().cloned().chain(want_eof.iter().cloned()).collect();
            vensure!(all == want_all, "C15/decode-eof-mismatch",
                "draining {:?} with decode_eof alone yields {:?}, the reference lines are {:?}", c.input, all, want_all);
        }
    }
    let mut obs = Obs::new();
    let has_nl = c.input.contains(&b'\n');
    let has_cr = c.input.contains(&b'\r');
    let non_ascii = c.input.iter().any(|b| *b >= 0x80);
    obs.nontrivial = has_nl && (has_cr || non_ascii);
    obs.label_if(has_nl && has_cr, "nl+cr");
    obs.label_if(items.iter().chain(eof_items.iter()).any(|i| i.is_err()), "invalid-utf8-line");
    obs.label_if(!eof_items.is_empty(), "unterminated-tail");
    obs.label_if(split > 0 && split < c.input.len(), "split-inside");
    Ok(obs)
}

pub fn conforming(s: &str) -> bool {
    !s.contains('\n') && !s.ends_with('\r')
}

pub fn check_encode(c: &EncodeCase) -> CaseResult {
    let mut codec = LinesCodec::default();
    let mut buf = BytesMut::from(&c.prefix[..]);
    let mut want = c.prefix.clone();
    for l in &c.lines {
        let r = catch_unwind(AssertUnwindSafe(|| codec.encode(l.as_str(), &mut buf)));
        match r {
            Err(p) => vfail!("C15/encode-panic", "encoder panicked on {:?}: {}", l, vcore::panic_message(&*p)),
            Ok(Err(e)) => vfail!("C15/encode-error", "encoder failed on {:?}: {}", l, e),
            Ok(Ok(())) => {}
        }
        want.extend_from_slice(l.as_bytes());
        want.push(b'\n');
        vensure!(&buf[..] == &want[..], "C15/encode-mismatch",
            "encode({:?}) must append exactly the string and one LF: buffer {:?}, expected {:?}", l, &buf[..], want);
    }
    let all_conforming = c.lines.iter().all(|l| conforming(l));
    let wire = buf[c.prefix.len()..].to_vec();
    let (items, eof_items) = match catch_unwind(AssertUnwindSafe(|| run_decoder(&wire, &[]))) {
        Err(p) => vfail!("C15/decode-panic", "decoder panicked on encoder output {:?}: {}", wire, vcore::panic_message(&*p)),
        Ok(Err(e)) => vfail!("C15/decode-nonterminating", "{} on encoder output {:?}", e, wire),
        Ok(Ok(x)) => x,
    };
    if all_conforming {
        let want: Vec<Item> = c.lines.iter().map(|l| Ok(l.clone())).collect();
        vensure!(items == want && eof_items.is_empty(), "C15/roundtrip",
            "decode(encode(xs)) != xs for {:?}: got {:?} + eof {:?}", c.lines, items, eof_items);
    }
    let mut obs = Obs::new();
    obs.nontrivial = all_conforming && c.lines.len() >= 2 && c.lines.iter().any(|l| l.contains('\r') || !l.is_ascii());
    obs.label_if(all_conforming, "conforming");
    obs.label_if(c.lines.iter().any(|l| l.is_empty()), "empty-line");
    obs.label_if(c.lines.iter().any(|l| l.contains('\r')), "inner-cr");
    Ok(obs)
}

// ---- generators --------------------------------------------------------------------------------

/// number of strings of length <= max over the 6-symbol alphabet
pub fn space_size(max_len: u32) -> u64 {
    (0..=max_len).map(|l| 6u64.pow(l)).sum()
}

/// index -> string (shortest first)
pub fn nth_string(mut ix: u64, alphabet: &[u8]) -> Vec<u8> {
    let k = alphabet.len() as u64;
    let mut len = 0u32;
    loop {
        let n = k.pow(len);
        if ix < n {
            break;
        }
        ix -= n;
        len += 1;
    }
    let mut out = vec![0u8; len as usize];
    for slot in out.iter_mut().rev() {
        *slot = alphabet[(ix % k) as usize];
        ix /= k;
    }
    out
}

pub fn byte_strategy() -> impl Strategy<Value = u8> {
    prop_oneof![
        4 => prop::sample::select(ALPHABET.to_vec()),
        3 => 0x20u8..0x7f,
        1 => prop::sample::select(vec![0xE2u8, 0x82, 0xAC, 0xF0, 0x9F, 0x98, 0x80, 0xC0, 0xED, 0xA0, 0x80]),
        1 => any::<u8>(),
    ]
}

pub fn decode_strategy(max_len: usize) -> impl Strategy<Value = DecodeCase> {
    // single bytes and whole sequences (a byte-order mark, other characters some tools treat
    // specially, CRLF), so that valid multi-byte characters occur at the start of lines too
    let token = prop_oneof![
        8 => byte_strategy().prop_map(|b| vec![b]),
        1 => prop::sample::select(vec!["\u{feff}", "\u{2028}", "\u{85}", "\u{fffd}", "é", "€", "\r\n", "\n\u{feff}", "\n\u{feff}\n"]).prop_map(|s| s.as_bytes().to_vec()),
    ];
    (prop::collection::vec(token, 0..=max_len).prop_map(move |ts| {
        let mut v: Vec<u8> = ts.into_iter().flatten().collect();
        v.truncate(max_len);
        v
    }), any::<u16>()).prop_map(|(input, s)| {
        let split = vcore::pick(s, input.len() + 1);
        DecodeCase { input, split }
    })
}

pub fn line_strategy() -> impl Strategy<Value = String> {
    let ch = || {
        prop_oneof![
            5 => prop::sample::select(vec!['a', 'b', ' ', 'z', '0']),
            2 => Just('\r'),
            // multi-byte characters, control characters, and characters some tools treat specially
            // (byte-order mark, line/paragraph separators, NEL, replacement character)
            2 => prop::sample::select(vec!['é', '€', '😀', '\u{0}', '\u{7f}', '\u{feff}', '\u{2028}', '\u{2029}', '\u{85}', '\u{fffd}', '\t', '\u{b}', '\u{c}']),
            1 => Just('\n'),
        ]
    };
    prop_oneof![
        6 => prop::collection::vec(ch(), 0..12).prop_map(|cs| cs.into_iter().collect::<String>()),
        // a special character in front, the rest plain
        1 => (prop::sample::select(vec!['\u{feff}', '\u{2028}', '\u{85}', '\r', 'é']), prop::collection::vec(ch(), 0..6)).prop_map(|(c0, cs)| std::iter::once(c0).chain(cs).collect::<String>()),
        // lengths around powers of two (stack buffers, small-string optimisations, chunk sizes)
        1 => (prop::sample::select(vec![15usize, 16, 17, 31, 32, 33, 63, 64, 65, 127, 128, 129, 255, 256, 257, 1023, 1024, 1025]), prop::sample::select(vec!['a', 'z', 'é'])).prop_map(|(n, c)| {
            let mut s = String::new();
            while s.len() + c.len_utf8() <= n {
                s.push(c);
            }
            while s.len() < n {
                s.push('x');
            }
            s
        }),
    ]
}

pub fn encode_strategy() -> impl Strategy<Value = EncodeCase> {
    (
        prop::collection::vec(
            prop_oneof![
                // mostly conforming lines (the round-trip domain) ...
                6 => line_strategy().prop_map(|s| {
                    let s: String = s.chars().filter(|c| *c != '\n').collect();
                    s.trim_end_matches('\r').to_string()
                }),
                // ... and some that are outside it (only the "appends exactly one LF" clause applies)
                1 => line_strategy(),
            ],
            0..6,
        ),
        prop::collection::vec(any::<u8>(), 0..4),
    )
        .prop_map(|(lines, prefix)| EncodeCase { lines, prefix })
}

/// fuzz bytes -> case (first byte selects the split point)
pub fn decode_case_from_bytes(data: &[u8]) -> DecodeCase {
    if data.is_empty() {
        return DecodeCase { input: vec![], split: 0 };
    }
    let input = data[1..].to_vec();
    let split = (data[0] as usize * (input.len() + 1)) >> 8;
    DecodeCase { input, split }
}

const RULE_DECODE: &str = "byte string + split point fed to LinesCodec::decode*/decode_eof* (and the whole input drained with decode_eof alone), compared item by item with a reference splitter; non-trivial = input contains a LF and a CR or a non-ASCII byte; distinct by (input, split)";
const RULE_ENCODE: &str = "sequence of strings encoded into one buffer, then decoded; encode must append s+LF; round trip asserted when no string contains LF or ends in CR; non-trivial = conforming, >=2 lines, some CR or non-ASCII";

pub fn run(ctx: &Ctx) {
    ctx.assume("the reference splitter encodes the property text: split at every LF, strip one trailing CR, final unterminated segment yielded at EOF if non-empty after stripping one CR, invalid UTF-8 => InvalidData for that line only");
    ctx.run_corpus::<DecodeCase>("decode", check_decode);
    ctx.run_corpus::<EncodeCase>("roundtrip", check_encode);

    // exhaustive: all strings of length <= 7 (quick: 6) over the 6-symbol alphabet x all split points
    let max_len = ctx.tier.pick(7, 8);
    let total = space_size(max_len);
    ctx.run_enum(
        Part::new("decode-exhaustive", RULE_DECODE, total),
        |shard, n, f: &mut dyn FnMut(&DecodeCase) -> bool| {
            let mut ix = shard as u64;
            while ix < total {
                let input = nth_string(ix, &ALPHABET);
                for split in 0..=input.len() {
                    if !f(&DecodeCase { input: input.clone(), split }) {
                        return;
                    }
                }
                ix += n as u64;
            }
        },
        check_decode,
    );

    // exhaustive round trip: all sequences of <= 3 strings of length <= 3 over {a, CR, é}
    let rt_alpha: Vec<String> = {
        let syms = ['a', '\r', 'é'];
        let mut v = vec![String::new()];
        let mut frontier = vec![String::new()];
        for _ in 0..3 {
            let mut next = vec![];
            for s in &frontier {
                for c in syms {
                    let mut t = s.clone();
                    t.push(c);
                    next.push(t);
                }
            }
            v.extend(next.iter().cloned());
            frontier = next;
        }
        v
    };
    let k = rt_alpha.len() as u64; // 40 strings, conforming and not
    let total_rt = 1 + k + k * k + k * k * k;
    ctx.run_enum(
        Part::new("roundtrip-exhaustive", RULE_ENCODE, total_rt),
        |shard, n, f: &mut dyn FnMut(&EncodeCase) -> bool| {
            let mut ix = shard as u64;
            while ix < total_rt {
                let mut i = ix;
                let mut len = 0;
                loop {
                    let cnt = k.pow(len);
                    if i < cnt {
                        break;
                    }
                    i -= cnt;
                    len += 1;
                }
                let mut lines = vec![];
                for _ in 0..len {
                    lines.push(rt_alpha[(i % k) as usize].clone());
                    i /= k;
                }
                if !f(&EncodeCase { lines, prefix: vec![] }) {
                    return;
                }
                ix += n as u64;
            }
        },
        check_encode,
    );

    let cases = ctx.tier.scale(40_000, 20);
    ctx.run_random(
        Part::new("decode", RULE_DECODE, cases).floors(&[("nl+cr", 0.10), ("invalid-utf8-line", 0.10), ("unterminated-tail", 0.10)]),
        || prop_oneof![8 => decode_strategy(64), 1 => decode_strategy(4096)],
        check_decode,
    );
    ctx.run_random(
        Part::new("roundtrip", RULE_ENCODE, cases / 2).floors(&[("conforming", 0.30), ("inner-cr", 0.10)]),
        encode_strategy,
        check_encode,
    );

    if ctx.tier == vcore::Tier::Thorough {
        ctx.run_fuzz(
            vcore::fuzz::Campaign { target: "c15_lines", part: "decode", runs_per_proc: 400_000, procs: 6, max_len: 256, rule: RULE_DECODE },
            &[b"\x80a\r\nb\n\xc3\xa9\r".to_vec(), b"\x00\n\n\r\r\n".to_vec()],
            &|bytes| {
                let c = decode_case_from_bytes(bytes);
                let r = check_decode(&c);
                Some((serde_json::to_value(&c).unwrap(), r))
            },
            &|v| serde_json::from_value::<DecodeCase>(v.clone()).ok().map(|c| check_decode(&c)),
        );
    }
}

pub fn replay(ctx: &Ctx, v: &Value) -> i32 {
    match v["part"].as_str().unwrap_or("") {
        p if p.starts_with("decode") => ctx.replay::<DecodeCase>(v, check_decode),
        p if p.starts_with("roundtrip") => ctx.replay::<EncodeCase>(v, check_encode),
        p => {
            eprintln!("unknown part {p}");
            2
        }
    }
}
